package rules

import (
	"fmt"
	"go/token"
	"go/types"
	"strings"

	"golang.org/x/tools/go/ssa"

	"otelcheck/internal/core"
)

func init() {
	core.Describe("C18",
		"Static necessary conditions of 'one caller's context never decides another caller's fate', decided on the type-checked SSA of the batch processor for all paths: "+
			"C18.1 the predicate that chooses between a caller's context and the processor's own context examines every contributor (loop-coverage analysis of its index space); "+
			"C18.2 the context handed to the export call derives, on the multi-contributor arm, only from the shard's own context and, on the single arm, from a contributor; "+
			"C18.3 on the multi arm the export span is started with links built from every contributor (helper ranges over the whole list) and each contributor span gets a link back; "+
			"C18.4 both arms of the apportioning loop record the head entry's own context next to its own response channel; "+
			"C18.5 every channel send of the export goroutine sits in a select with the same contributor's ctx.Done(). "+
			"NOT decided: what downstream consumers do with a cancelled context, span contents, schedules.",
		"trace.Tracer.Start returns a context derived from its first argument", "context equality (==) identifies a request context")

	register("C18", &core.Rule{ID: "C18.1", Title: "single-context predicate scans all contributors", Mod: core.ModCBP, Floor: 1, Run: c18_1, Canary: c18_1Canary})
	register("C18", &core.Rule{ID: "C18.2", Title: "export context selection", Mod: core.ModCBP, Floor: 2, Run: c18_2})
	register("C10", &core.Rule{ID: "C10.9", Title: "export context selection: a batch fed by several request contexts is exported under the shard's own context — the one built from this combination's metadata (C10.5) — and a single-context batch under that caller's", Mod: core.ModCBP, Floor: 2, Run: c18_2})
	register("C18", &core.Rule{ID: "C18.3", Title: "links to and from every contributor", Mod: core.ModCBP, Floor: 3, Run: c18_3})
	register("C18", &core.Rule{ID: "C18.4", Title: "contributor tuple carries the head entry's own context", Mod: core.ModCBP, Floor: 2, Run: c18_4})
	register("C18", &core.Rule{ID: "C18.5", Title: "sends in the export goroutine are cancellable by the same contributor", Mod: core.ModCBP, Floor: 1, Run: c11_4})
}

const c18_1Canary = `package c

import "context"

type tup struct {
	n   int
	ctx context.Context
}

// BadRangeSliced draws the index from x[1:] but applies it to x: the last element is never examined.
func BadRangeSliced(x []tup) bool {
	for idx := range x[1:] {
		if x[idx].ctx != x[0].ctx {
			return false
		}
	}
	return true
}

// BadShortBound stops one element early.
func BadShortBound(x []tup) bool {
	for i := 1; i < len(x)-1; i++ {
		if x[i].ctx != x[0].ctx {
			return false
		}
	}
	return true
}

// BadSelfCompare compares an element with itself.
func BadSelfCompare(x []tup) bool {
	for i := 1; i < len(x); i++ {
		if x[i].ctx != x[i].ctx {
			return false
		}
	}
	return true
}

func GoodOffset(x []tup) bool {
	for idx := range x[1:] {
		if x[idx+1].ctx != x[0].ctx {
			return false
		}
	}
	return true
}

func GoodValueRange(x []tup) bool {
	for _, v := range x[1:] {
		if v.ctx != x[0].ctx {
			return false
		}
	}
	return true
}

func GoodClassic(x []tup) bool {
	for i := 1; i < len(x); i++ {
		if x[i].ctx != x[0].ctx {
			return false
		}
	}
	return true
}

func GoodPairwise(x []tup) bool {
	for i := 1; i < len(x); i++ {
		if x[i].ctx != x[i-1].ctx {
			return false
		}
	}
	return true
}

func use(x []tup) bool {
	return BadRangeSliced(x) || BadShortBound(x) || BadSelfCompare(x) || GoodOffset(x) || GoodValueRange(x) || GoodClassic(x) || GoodPairwise(x)
}
`

// ctxFieldOf returns the context.Context fields of struct type t.
func ctxFields(t types.Type) []*types.Var {
	st, ok := t.Underlying().(*types.Struct)
	if !ok {
		return nil
	}
	var out []*types.Var
	for i := 0; i < st.NumFields(); i++ {
		if isCtx(st.Field(i).Type()) {
			out = append(out, st.Field(i))
		}
	}
	return out
}

// isCtxTupleSlicePred: func([]S) bool with S a struct having a context field.
func isCtxTupleSlicePred(fn *ssa.Function) bool {
	if fn == nil || fn.Signature.Recv() != nil || fn.Signature.Params().Len() != 1 || fn.Signature.Results().Len() != 1 {
		return false
	}
	if !isBool(fn.Signature.Results().At(0).Type()) {
		return false
	}
	sl, ok := fn.Signature.Params().At(0).Type().Underlying().(*types.Slice)
	if !ok {
		return false
	}
	return len(ctxFields(sl.Elem())) > 0
}

// analyseAllSame decides whether pred examines every element of its parameter
// but (at most) the first against a reference element.
func analyseAllSame(p *core.Prog, fn *ssa.Function) (ok bool, undecided bool, msg string) {
	if len(fn.Params) != 1 || fn.Blocks == nil {
		return false, true, "no body"
	}
	x := fn.Params[0]
	// find comparisons of two context-typed element fields
	type cmpSite struct {
		bin  *ssa.BinOp
		a, b *core.ElemAccess
	}
	var sites []cmpSite
	elemOfCtxLoad := func(v ssa.Value) *core.ElemAccess {
		v = core.Strip(v)
		u, ok := v.(*ssa.UnOp)
		if !ok || u.Op != token.MUL {
			// value-range form: field of a loaded element  (t = *(&s[i]); t.ctx)
			if f, ok := v.(*ssa.Field); ok && isCtx(f.Type()) {
				if l, ok := f.X.(*ssa.UnOp); ok && l.Op == token.MUL {
					if acc, ok := core.ElemAccessOf(l.X); ok {
						return acc
					}
				}
			}
			return nil
		}
		fa, ok := u.X.(*ssa.FieldAddr)
		if !ok || !isCtx(u.Type()) {
			return nil
		}
		if acc, ok := core.ElemAccessOf(fa.X); ok {
			return acc
		}
		// &local.ctx where local = *(&s[i]) stored into an alloc
		if al, ok := fa.X.(*ssa.Alloc); ok {
			for _, r := range core.Referrers(al) {
				if st, ok := r.(*ssa.Store); ok && st.Addr == al {
					if l, ok := st.Val.(*ssa.UnOp); ok && l.Op == token.MUL {
						if acc, ok := core.ElemAccessOf(l.X); ok {
							return acc
						}
					}
				}
			}
		}
		return nil
	}
	core.EachInstr(fn, func(i ssa.Instruction) {
		b, ok := i.(*ssa.BinOp)
		if !ok || (b.Op != token.NEQ && b.Op != token.EQL) || !isCtx(b.X.Type()) {
			return
		}
		a1, a2 := elemOfCtxLoad(b.X), elemOfCtxLoad(b.Y)
		if a1 != nil && a2 != nil {
			sites = append(sites, cmpSite{b, a1, a2})
		}
	})
	if len(sites) == 0 {
		return false, true, "no comparison of two elements' context fields found (form not recognised)"
	}
	if len(sites) > 1 {
		return false, true, "several element comparisons (form not recognised)"
	}
	s := sites[0]
	if !core.SameValue(s.a.Base, x) || !core.SameValue(s.b.Base, x) {
		return false, true, "compared elements are not elements of the parameter"
	}
	mov, ref := s.a, s.b
	if mov.Phi == nil {
		mov, ref = ref, mov
	}
	if mov.Phi == nil {
		return false, false, "both compared elements have constant indices: no scan over the contributors"
	}
	ind, okI := core.InductionOf(mov.Phi)
	if !okI {
		return false, true, "loop form not recognised"
	}
	lo, hiOff, okC := ind.Coverage(mov)
	if !okC {
		return false, true, "loop bound is not a length of the parameter (form not recognised)"
	}
	// reference element
	switch {
	case ref.Phi == nil && ref.Off == 0:
	case ref.Phi == mov.Phi && ref.Off == mov.Off-1:
	case ref.Phi == mov.Phi && ref.Off == mov.Off:
		return false, false, "the element is compared with itself"
	default:
		return false, true, fmt.Sprintf("reference element form not recognised (offset %d)", ref.Off)
	}
	if lo > 1 {
		return false, false, fmt.Sprintf("scan starts at element %d: element 1 is never compared", lo)
	}
	if hiOff < 0 {
		return false, false, fmt.Sprintf("scan covers elements [%d, len%+d): the last %d contributor(s) are never compared (index drawn from a shortened range but applied to the full slice)", lo, hiOff, -hiOff)
	}
	// the comparison must decide the result: differ-arm returns false
	var iff *ssa.If
	for _, r := range core.Referrers(s.bin) {
		if i, ok := r.(*ssa.If); ok {
			iff = i
		}
	}
	if iff == nil {
		return false, true, "comparison result does not feed a branch"
	}
	differArm := iff.Block().Succs[0]
	if s.bin.Op == token.EQL {
		differArm = iff.Block().Succs[1]
	}
	// every return reachable from the differ arm without re-entering the loop header returns false
	okRet := false
	{
		seen := map[*ssa.BasicBlock]bool{ind.Phi.Block(): true}
		work := []*ssa.BasicBlock{differArm}
		if differArm == ind.Phi.Block() {
			return false, false, "differing contexts do not end the scan with false"
		}
		for len(work) > 0 {
			b := work[0]
			work = work[1:]
			if seen[b] {
				continue
			}
			seen[b] = true
			if r, ok := b.Instrs[len(b.Instrs)-1].(*ssa.Return); ok {
				if v, isC := core.ConstBool(r.Results[0]); !isC || v {
					return false, false, "a differing context does not make the predicate return false"
				}
				okRet = true
			}
			work = append(work, b.Succs...)
		}
	}
	if !okRet {
		return false, false, "a differing context does not make the predicate return false"
	}
	// every non-false return happens only after the loop ran to completion or for len<2
	exitEdge := core.Edge{From: ind.Cond.Block(), To: ind.Cond.Block().Succs[1]}
	if !ind.BodyArm {
		exitEdge.To = ind.Cond.Block().Succs[0]
	}
	for _, r := range core.Returns(fn) {
		if v, isC := core.ConstBool(r.Results[0]); isC && !v {
			continue
		}
		if core.EdgeGuards(fn, exitEdge, r) {
			continue
		}
		if guardedByShortLen(fn, x, r) {
			continue
		}
		return false, false, fmt.Sprintf("return at %s can yield true before the scan has finished", p.Pos(r.Pos()))
	}
	return true, false, fmt.Sprintf("scan covers elements [%d, len%+d) against element %s", lo, hiOff, map[bool]string{true: "0", false: "i-1"}[ref.Phi == nil])
}

// guardedByShortLen: r executes only when len(x) < 2 (or == 0, <= 1).
func guardedByShortLen(fn *ssa.Function, x ssa.Value, r ssa.Instruction) bool {
	for _, b := range fn.Blocks {
		iff := core.IfOf(b)
		if iff == nil {
			continue
		}
		cmp, ok := iff.Cond.(*ssa.BinOp)
		if !ok {
			continue
		}
		base, sub, okL := core.LenOf(cmp.X)
		k, okK := core.ConstInt(cmp.Y)
		if !okL || !okK || sub != 0 || !core.SameValue(base, x) {
			continue
		}
		short := false
		switch cmp.Op {
		case token.LSS:
			short = k <= 2
		case token.LEQ:
			short = k <= 1
		case token.EQL:
			short = k <= 1
		}
		if short && core.GuardedBy(iff, true, r) {
			return true
		}
	}
	return false
}

func c18_1(c *core.Ctx, p *core.Prog) {
	a := newCBPAnchors(p)
	if !a.ok(c) {
		return
	}
	var preds []*ssa.Function
	core.EachCall(a.spanFn(), func(ci ssa.CallInstruction) {
		if f := core.StaticCallee(ci); f != nil && core.FnPkgPath(f) == core.CBPPath && isCtxTupleSlicePred(f) {
			preds = append(preds, f)
		}
	})
	if len(preds) == 0 {
		iff := a.singleCtxIf()
		if iff == nil {
			c.Undecided("pred", p.Pos(a.exportFn.Pos()), core.FuncName(a.exportFn), "single-context detection not found: the export goroutine neither calls a func([]contributor) bool predicate nor branches between a contributor's and the shard's own context for the export span")
		} else {
			ok, und, msg := a.flagDiscipline(p, iff.Cond)
			key := "flag=" + core.FuncName(a.sendFn)
			switch {
			case und:
				c.Undecided(key, p.Pos(a.sendFn.Pos()), core.FuncName(a.sendFn), msg)
			case ok:
				c.OK(key, p.Pos(a.sendFn.Pos()), core.FuncName(a.sendFn), msg)
			default:
				c.Viol(key, p.Pos(a.sendFn.Pos()), core.FuncName(a.sendFn), "the single-context decision does not examine every contributor: "+msg+"; a batch whose unexamined contributor has a different context is exported under the first caller's context")
			}
		}
	}
	for _, f := range cbpFuncs(c, p) {
		if core.IsCanaryPath(core.FnPkgPath(f)) && isCtxTupleSlicePred(f) {
			preds = append(preds, f)
		}
	}
	for _, f := range preds {
		ok, und, msg := analyseAllSame(p, f)
		key := "pred=" + core.FuncName(f)
		switch {
		case und:
			c.Undecided(key, p.Pos(f.Pos()), core.FuncName(f), msg)
		case ok:
			c.OK(key, p.Pos(f.Pos()), core.FuncName(f), msg)
		default:
			c.Viol(key, p.Pos(f.Pos()), core.FuncName(f), "single-context predicate does not examine every contributor: "+msg+"; a batch whose unexamined contributor has a different context is exported under the first caller's context")
		}
	}
}

// ---- C18.2 ----

// ctxOrigin classifies where a context value comes from: "own" (a field of
// the shard struct, or context.Background/TODO), "caller" (a field of any other
// package struct, i.e. a contributor's context), through Tracer.Start and phis.
func (a *cbpAnchors) ctxOrigins(v ssa.Value) map[string][]ssa.Value {
	out := map[string][]ssa.Value{}
	core.BackSlice(v, func(x ssa.Value) bool {
		switch y := x.(type) {
		case *ssa.FieldAddr:
			if fv := core.FieldVar(y); fv != nil && isCtx(fv.Type()) {
				owner := core.NamedOf(y.X.Type())
				if owner != nil && a.shard != nil && owner.Obj() == a.shard.Obj() {
					out["own"] = append(out["own"], y)
				} else {
					out["caller"] = append(out["caller"], y)
				}
				return false
			}
		case *ssa.Field:
			if fv := core.FieldVar(y); fv != nil && isCtx(fv.Type()) {
				out["caller"] = append(out["caller"], y)
				return false
			}
		case *ssa.Call:
			if f := core.CalleeObj(y); f != nil {
				if core.IsPkgFunc(f, "context", "Background") || core.IsPkgFunc(f, "context", "TODO") {
					out["own"] = append(out["own"], y)
					return false
				}
				// Tracer.Start(ctx, name, opts...) : follow only the ctx argument
				if f.Name() == "Start" && y.Call.IsInvoke() && len(y.Call.Args) >= 1 && isCtx(y.Call.Args[0].Type()) {
					for k, vs := range a.ctxOrigins(y.Call.Args[0]) {
						out[k] = append(out[k], vs...)
					}
					return false
				}
				// other calls: context.With*(parent, ...) follow first ctx arg
				if f.Pkg() != nil && f.Pkg().Path() == "context" && len(y.Call.Args) >= 1 && isCtx(y.Call.Args[0].Type()) {
					for k, vs := range a.ctxOrigins(y.Call.Args[0]) {
						out[k] = append(out[k], vs...)
					}
					return false
				}
				out["unknown"] = append(out["unknown"], y)
				return false
			}
		case *ssa.Parameter:
			if isCtx(y.Type()) {
				out["unknown"] = append(out["unknown"], y)
			}
		}
		return true
	})
	return out
}

// spanFn is the function that holds the tracing decision of one export: the export goroutine itself, or
// the package function it calls to start the export span (`ctx, span := b.startExportSpan(batch)`), which
// is then bound to its single call site and treated as transparent by the slicer.
func (a *cbpAnchors) spanFn() *ssa.Function {
	startsSpan := func(f *ssa.Function) bool {
		found := false
		core.EachInstr(f, func(i ssa.Instruction) {
			if cl, ok := i.(*ssa.Call); ok && cl.Call.IsInvoke() && cl.Call.Method.Name() == "Start" && core.TypePkgPath(cl.Call.Value.Type()) == "go.opentelemetry.io/otel/trace" {
				found = true
			}
		})
		return found
	}
	if startsSpan(a.exportFn) {
		return a.exportFn
	}
	var res *ssa.Function
	core.EachInstr(a.exportFn, func(i ssa.Instruction) {
		cl, ok := i.(*ssa.Call)
		if !ok || res != nil {
			return
		}
		h := cl.Call.StaticCallee()
		if h == nil || h.Blocks == nil || core.FnPkgPath(h) != core.CBPPath || !startsSpan(h) {
			return
		}
		res = h
		for k, pr := range h.Params {
			if k < len(cl.Call.Args) {
				core.BindParam(pr, cl.Call.Args[k])
			}
		}
		core.MarkTransparent(h)
	})
	if res == nil {
		return a.exportFn
	}
	return res
}

// singleCtxIf finds the branch on the single-context predicate in the export goroutine.
func (a *cbpAnchors) singleCtxIf() *ssa.If {
	var res *ssa.If
	core.EachInstr(a.spanFn(), func(i ssa.Instruction) {
		iff, ok := i.(*ssa.If)
		if !ok {
			return
		}
		if core.DerivesFrom(iff.Cond, func(v ssa.Value) bool {
			cl, ok := v.(*ssa.Call)
			return ok && isCtxTupleSlicePred(cl.Call.StaticCallee())
		}) {
			if res == nil {
				res = iff
			}
		}
	})
	if res != nil {
		return res
	}
	// semantic fallback: the branch that separates a Tracer.Start whose parent is a contributor's
	// context from a Tracer.Start whose parent is the shard's own context
	var callerStart, ownStart []*ssa.Call
	core.EachInstr(a.spanFn(), func(i ssa.Instruction) {
		cl, ok := i.(*ssa.Call)
		if !ok || !cl.Call.IsInvoke() || cl.Call.Method.Name() != "Start" || len(cl.Call.Args) < 1 || !isCtx(cl.Call.Args[0].Type()) {
			return
		}
		o := a.ctxOrigins(cl.Call.Args[0])
		switch {
		case len(o["caller"]) > 0 && len(o["own"]) == 0:
			callerStart = append(callerStart, cl)
		case len(o["own"]) > 0 && len(o["caller"]) == 0:
			ownStart = append(ownStart, cl)
		}
	})
	if len(callerStart) == 1 && len(ownStart) == 1 {
		core.EachInstr(a.spanFn(), func(i ssa.Instruction) {
			iff, ok := i.(*ssa.If)
			if !ok || res != nil {
				return
			}
			if (core.GuardedBy(iff, true, callerStart[0]) && core.GuardedBy(iff, false, ownStart[0])) || (core.GuardedBy(iff, false, callerStart[0]) && core.GuardedBy(iff, true, ownStart[0])) {
				res = iff
			}
		})
	}
	return res
}

// flagDiscipline checks the incremental form of the single-context decision: a boolean cell of the
// sending function, initialised true, cleared under a comparison of two request contexts; every site
// that adds a contributor to the list must be preceded, in its iteration, by such a comparison (the
// only way round it being the "list still empty" edge).
func (a *cbpAnchors) flagDiscipline(p *core.Prog, cond ssa.Value) (ok bool, undecided bool, msg string) {
	// the flag cell: an Alloc of the sending function that the condition loads (through the closure)
	var cell *ssa.Alloc
	core.BackSlice(cond, func(v ssa.Value) bool {
		if al, isAl := v.(*ssa.Alloc); isAl && al.Parent() == a.sendFn && isBool(al.Type().(*types.Pointer).Elem()) {
			cell = al
			return false
		}
		return true
	})
	if cell == nil {
		return false, true, "the single-context decision derives neither from a predicate over the contributor list nor from a boolean of the sending function"
	}
	fn := a.sendFn
	var clears []*ssa.Store
	for _, r := range core.Referrers(cell) {
		st, isSt := r.(*ssa.Store)
		if !isSt || st.Addr != ssa.Value(cell) {
			continue
		}
		b, isC := core.ConstBool(st.Val)
		if !isC {
			return false, true, "the single-context flag is assigned a computed value at " + p.Pos(st.Pos())
		}
		if !b {
			clears = append(clears, st)
		}
	}
	if len(clears) == 0 {
		return false, false, "the single-context flag is never cleared"
	}
	// comparisons of two request contexts whose 'different' arm clears the flag
	var cmps []*ssa.If
	for _, b := range fn.Blocks {
		iff := core.IfOf(b)
		if iff == nil {
			continue
		}
		bo, isB := iff.Cond.(*ssa.BinOp)
		if !isB || (bo.Op != token.NEQ && bo.Op != token.EQL) || !isCtx(bo.X.Type()) {
			continue
		}
		if len(a.ctxOrigins(bo.X)["caller"]) == 0 || len(a.ctxOrigins(bo.Y)["caller"]) == 0 {
			continue
		}
		for _, st := range clears {
			if core.GuardedBy(iff, bo.Op == token.NEQ, st) {
				cmps = append(cmps, iff)
			}
		}
	}
	if len(cmps) == 0 {
		return false, false, "the single-context flag is not cleared under a comparison of two request contexts"
	}
	// add sites: stores of an append(...) result into a slice cell whose element has a context field
	var adds []*ssa.Store
	core.EachInstr(fn, func(i ssa.Instruction) {
		st, isSt := i.(*ssa.Store)
		if !isSt {
			return
		}
		sl, isSl := st.Val.Type().Underlying().(*types.Slice)
		if !isSl || len(ctxFields(sl.Elem())) == 0 {
			return
		}
		if cl, isCl := st.Val.(*ssa.Call); isCl {
			if bi, isBi := cl.Call.Value.(*ssa.Builtin); isBi && bi.Name() == "append" {
				adds = append(adds, st)
			}
		}
	})
	if len(adds) == 0 {
		return false, true, "no site adding a contributor to the list found"
	}
	loops := loopsOf(fn)
	for _, A := range adds {
		var header *ssa.BasicBlock
		var body map[*ssa.BasicBlock]bool
		for h, bd := range loops {
			if bd[A.Block()] && (body == nil || len(bd) < len(body)) {
				header, body = h, bd
			}
		}
		if header == nil {
			return false, true, "a contributor is added outside a loop"
		}
		cut := map[core.Edge]bool{}
		for _, pr := range header.Preds {
			if body[pr] {
				cut[core.Edge{From: pr, To: header}] = true
			}
		}
		// the "list still empty" edge: len(list) == 0 / != 0
		for _, b := range fn.Blocks {
			iff := core.IfOf(b)
			if iff == nil {
				continue
			}
			subj, zeroOnTrue, isZ := zeroCond(iff.Cond)
			if !isZ {
				continue
			}
			if sl, isSl := subj.Type().Underlying().(*types.Slice); isSl && len(ctxFields(sl.Elem())) > 0 {
				idx := 1
				if zeroOnTrue {
					idx = 0
				}
				cut[core.Edge{From: b, To: b.Succs[idx]}] = true
			}
		}
		isCmp := func(i ssa.Instruction) bool {
			for _, j := range cmps {
				if i == ssa.Instruction(j) {
					return true
				}
			}
			return false
		}
		if bypass, _ := (core.PathQuery{Fn: fn, From: header.Instrs[0], To: A, Avoid: isCmp, CutEdges: cut}).Exists(); bypass {
			return false, false, fmt.Sprintf("the contributor added at %s is not compared: a path through the loop reaches it without evaluating the context comparison that clears the single-context flag (e.g. the arm for a request only partly in the batch)", p.Pos(A.Pos()))
		}
	}
	return true, false, fmt.Sprintf("incremental form: %d add site(s), each preceded in its iteration by the context comparison that clears the flag", len(adds))
}

func c18_2(c *core.Ctx, p *core.Prog) {
	a := newCBPAnchors(p)
	if !a.ok(c) {
		return
	}
	fn := a.exportFn
	pos := p.Pos(a.exportCall.Pos())
	ctxArg := a.exportCall.Common().Args[0]
	iff := a.singleCtxIf()
	if iff == nil {
		c.Undecided("select", pos, core.FuncName(fn), "no branch on the single-context predicate found in the export goroutine")
		return
	}
	// enumerate the definitions reaching the export ctx argument (phi edges)
	var defs []ssa.Value
	var expand func(v ssa.Value, seen map[ssa.Value]bool)
	expand = func(v ssa.Value, seen map[ssa.Value]bool) {
		if seen[v] {
			return
		}
		seen[v] = true
		if ph, ok := v.(*ssa.Phi); ok {
			for _, e := range ph.Edges {
				expand(e, seen)
			}
			return
		}
		// the context is a result of the span-starting helper: its definitions are the helper's returns
		if ex, ok := v.(*ssa.Extract); ok {
			if cl, ok := ex.Tuple.(*ssa.Call); ok && cl.Call.StaticCallee() == a.spanFn() && a.spanFn() != a.exportFn {
				for _, r := range core.Returns(a.spanFn()) {
					if ex.Index < len(r.Results) {
						expand(r.Results[ex.Index], seen)
					}
				}
				return
			}
		}
		defs = append(defs, v)
	}
	expand(ctxArg, map[ssa.Value]bool{})
	for idx, d := range defs {
		ins, _ := d.(ssa.Instruction)
		org := a.ctxOrigins(d)
		var kinds []string
		for k := range org {
			kinds = append(kinds, k)
		}
		arm := "either"
		if ins != nil {
			if core.GuardedBy(iff, true, ins) {
				arm = "single"
			} else if core.GuardedBy(iff, false, ins) {
				arm = "multi"
			}
		}
		key := fmt.Sprintf("exportctx|arm=%s|def=%d", arm, idx)
		dpos := pos
		if ins != nil {
			dpos = p.Pos(ins.Pos())
		}
		switch arm {
		case "multi", "either":
			if len(org["caller"]) > 0 || len(org["unknown"]) > 0 {
				c.Viol(key, dpos, core.FuncName(fn), fmt.Sprintf("on the %s-contributor arm the context passed to export derives from a caller's context (%s): cancelling that caller cancels other callers' items", arm, strings.Join(kinds, ",")))
			} else if len(org["own"]) == 0 {
				c.Undecided(key, dpos, core.FuncName(fn), "origin of the export context not recognised")
			} else {
				c.OK(key, dpos, core.FuncName(fn), "export context on the multi-contributor arm derives only from the shard's own context")
			}
		case "single":
			if len(org["caller"]) > 0 && len(org["unknown"]) == 0 {
				// must be an element of the contributor list captured by the closure
				c.OK(key, dpos, core.FuncName(fn), "export context on the single-contributor arm derives from a contributor's context")
			} else if len(org["own"]) > 0 && len(org["caller"]) == 0 {
				c.Viol(key, dpos, core.FuncName(fn), "on the single-contributor arm the export is not a child of the request: its context derives from the shard's own context")
			} else {
				c.Undecided(key, dpos, core.FuncName(fn), "origin of the export context not recognised: "+strings.Join(kinds, ","))
			}
		}
	}
	if len(defs) < 2 {
		c.Undecided("exportctx|arms", pos, core.FuncName(fn), "expected one export context per arm of the single-context branch")
	}
}

// ---- C18.3 ----

func c18_3(c *core.Ctx, p *core.Prog) {
	a := newCBPAnchors(p)
	if !a.ok(c) {
		return
	}
	fn := a.spanFn()
	iff := a.singleCtxIf()
	if iff == nil {
		c.Undecided("links", p.Pos(fn.Pos()), core.FuncName(fn), "no single-context branch")
		return
	}
	// (1) the Start call on the multi arm gets trace.WithLinks(...)
	var multiStart *ssa.Call
	core.EachInstr(fn, func(i ssa.Instruction) {
		cl, ok := i.(*ssa.Call)
		if !ok || !cl.Call.IsInvoke() || cl.Call.Method.Name() != "Start" {
			return
		}
		if core.TypePkgPath(cl.Call.Value.Type()) != "go.opentelemetry.io/otel/trace" {
			return
		}
		if core.GuardedBy(iff, false, cl) {
			multiStart = cl
		}
	})
	if multiStart == nil {
		c.Undecided("links|start", p.Pos(fn.Pos()), core.FuncName(fn), "no Tracer.Start on the multi-contributor arm")
		return
	}
	spos := p.Pos(multiStart.Pos())
	var withLinks *ssa.Call
	for _, arg := range multiStart.Call.Args[1:] {
		core.BackSlice(arg, func(v ssa.Value) bool {
			if cl, ok := v.(*ssa.Call); ok {
				if f := core.CalleeObj(cl); core.IsPkgFunc(f, "go.opentelemetry.io/otel/trace", "WithLinks") {
					withLinks = cl
					return false
				}
			}
			return true
		})
	}
	if withLinks == nil {
		c.Viol("links|forward", spos, core.FuncName(fn), "the export span of a multi-contributor batch is started without trace.WithLinks: contributors are not linked")
		return
	}
	// (2) links slice filled from every span of a spans slice
	var spansV ssa.Value
	linkCoverOK := false
	linkMsg := "the slice given to WithLinks is not filled from every contributor span"
	var linksMake ssa.Value
	core.BackSlice(withLinks.Call.Args[0], func(v ssa.Value) bool {
		if mk, ok := v.(*ssa.MakeSlice); ok {
			linksMake = mk
			return false
		}
		return true
	})
	if linksMake != nil {
		// stores  links[i] = Link{SpanContext: spans[i].SpanContext()}
		for _, r := range core.Referrers(linksMake) {
			ia, ok := r.(*ssa.IndexAddr)
			if !ok {
				continue
			}
			for _, r2 := range core.Referrers(ia) {
				st, ok := r2.(*ssa.Store)
				if !ok || st.Addr != ia {
					continue
				}
				dst, ok := core.ElemAccessOf(ia)
				if !ok || dst.Phi == nil {
					continue
				}
				ind, ok := core.InductionOf(dst.Phi)
				if !ok {
					continue
				}
				// source span element in the slice of the stored value
				var src *core.ElemAccess
				core.BackSlice(st.Val, func(v ssa.Value) bool {
					if acc, ok := core.ElemAccessOf(v); ok && acc.Phi == dst.Phi && !core.SameValue(acc.Base, linksMake) {
						src = acc
						return false
					}
					return true
				})
				if src == nil {
					continue
				}
				lo, hi, ok := ind.Coverage(src)
				if !ok {
					// the loop is bounded by the destination, which was made with the length of the source
					if mk, isMk := linksMake.(*ssa.MakeSlice); isMk {
						if lo2, hi2, ok2 := ind.Coverage(dst); ok2 && lo2 <= 0 && hi2 >= 0 {
							if ln, isLen := core.StripConv(mk.Len).(*ssa.Call); isLen {
								if bi, isB := ln.Call.Value.(*ssa.Builtin); isB && bi.Name() == "len" && core.SameValue(ln.Call.Args[0], src.Base) {
									lo, hi, ok = lo2, hi2, true
								}
							}
						}
					}
				}
				if ok && lo <= 0 && hi >= 0 && dst.Off == src.Off {
					linkCoverOK = true
					spansV = src.Base
					linkMsg = "links[i] is built from spans[i] for every i in [0,len(spans))"
				} else if ok {
					linkMsg = fmt.Sprintf("links are built from spans [%d, len%+d) only", lo, hi)
					spansV = src.Base
				}
			}
		}
	} else {
		c.Undecided("links|forward", spos, core.FuncName(fn), "construction of the links slice not recognised")
		return
	}
	c.Check(linkCoverOK, "links|forward", spos, core.FuncName(fn), linkMsg, linkMsg)
	if spansV == nil {
		return
	}
	// (3) spans come from a helper that ranges over all contributors
	var helper *ssa.Function
	var helperCall *ssa.Call
	core.BackSlice(spansV, func(v ssa.Value) bool {
		if cl, ok := v.(*ssa.Call); ok {
			if f := cl.Call.StaticCallee(); f != nil && core.FnPkgPath(f) == core.CBPPath {
				helper, helperCall = f, cl
				return false
			}
		}
		return true
	})
	if helper == nil {
		c.Undecided("links|helper", spos, core.FuncName(fn), "origin of the contributor spans not recognised")
	} else {
		ok, msg := analyseParentSpans(helper)
		c.Check(ok, "links|helper="+core.FuncName(helper), p.Pos(helper.Pos()), core.FuncName(helper), msg, "contributor-span helper: "+msg)
		_ = helperCall
	}
	// (4) AddLink on every span of the same slice, with the export span's context
	backOK, backMsg := false, "no AddLink back to the contributors on the multi-contributor arm"
	core.EachInstr(fn, func(i ssa.Instruction) {
		cl, ok := i.(*ssa.Call)
		if !ok || !cl.Call.IsInvoke() || cl.Call.Method.Name() != "AddLink" {
			return
		}
		if !core.GuardedBy(iff, false, cl) {
			return
		}
		var acc *core.ElemAccess
		core.BackSlice(cl.Call.Value, func(v ssa.Value) bool {
			if a2, ok := core.ElemAccessOf(v); ok {
				acc = a2
				return false
			}
			return true
		})
		if acc == nil || acc.Phi == nil {
			backMsg = "AddLink receiver is not an element of the contributor spans"
			return
		}
		ind, ok := core.InductionOf(acc.Phi)
		if !ok {
			backMsg = "AddLink loop form not recognised"
			return
		}
		lo, hi, ok := ind.Coverage(acc)
		if !ok || !core.SameValue(acc.Base, spansV) {
			backMsg = "AddLink does not range over the same contributor spans that were linked"
			return
		}
		if lo > 0 || hi < 0 {
			backMsg = fmt.Sprintf("AddLink covers spans [%d, len%+d) only", lo, hi)
			return
		}
		// the link's SpanContext derives from the span returned by multiStart
		if !core.DerivesFrom(cl.Call.Args[0], func(v ssa.Value) bool { return v == ssa.Value(multiStart) }) {
			backMsg = "the link added to the contributors does not carry the export span's context"
			return
		}
		backOK, backMsg = true, "every contributor span gets a link to the export span"
	})
	c.Check(backOK, "links|back", spos, core.FuncName(fn), backMsg, backMsg)
}

// analyseParentSpans: helper(x []tuple) []trace.Span ranges over all of x and
// appends SpanFromContext(x[i].ctx) unless that ctx was seen before.
func analyseParentSpans(fn *ssa.Function) (bool, string) {
	if len(fn.Params) != 1 {
		return false, "unexpected signature"
	}
	x := fn.Params[0]
	found := false
	msg := "no trace.SpanFromContext(x[i].ctx) appended for the contributors"
	core.EachInstr(fn, func(i ssa.Instruction) {
		cl, ok := i.(*ssa.Call)
		if !ok {
			return
		}
		if f := core.CalleeObj(cl); !core.IsPkgFunc(f, "go.opentelemetry.io/otel/trace", "SpanFromContext") {
			return
		}
		var acc *core.ElemAccess
		core.BackSlice(cl.Call.Args[0], func(v ssa.Value) bool {
			if a2, ok := core.ElemAccessOf(v); ok {
				acc = a2
				return false
			}
			return true
		})
		if acc == nil || acc.Phi == nil || !core.SameValue(acc.Base, x) {
			msg = "SpanFromContext argument is not an element of the contributor list"
			return
		}
		ind, ok := core.InductionOf(acc.Phi)
		if !ok {
			msg = "loop form not recognised"
			return
		}
		lo, hi, ok := ind.Coverage(acc)
		if !ok {
			msg = "loop bound is not the length of the contributor list"
			return
		}
		if lo > 0 || hi < 0 {
			msg = fmt.Sprintf("covers contributors [%d, len%+d) only", lo, hi)
			return
		}
		// skip condition: only a map lookup keyed by the contributor's identity
		// (its context, its span, or a key containing the span id).  The guards
		// are those that decide whether the span reaches the result slice.
		body := cl.Block()
		hdr := ind.Phi.Block()
		var sink ssa.Instruction = cl
		core.EachInstr(fn, func(j ssa.Instruction) {
			ap, ok := j.(*ssa.Call)
			if !ok {
				return
			}
			if b, ok := ap.Call.Value.(*ssa.Builtin); !ok || b.Name() != "append" || len(ap.Call.Args) < 2 {
				return
			}
			if core.DerivesFrom(ap.Call.Args[1], func(v ssa.Value) bool { return v == ssa.Value(cl) }) {
				sink = ap
			}
		})
		for _, b := range fn.Blocks {
			iff := core.IfOf(b)
			if iff == nil || b == hdr {
				continue
			}
			// branches inside the loop that can bypass the call or the append
			if !core.GuardedBy(iff, true, sink) && !core.GuardedBy(iff, false, sink) {
				continue
			}
			coarse := ""
			okSkip := core.DerivesFrom(iff.Cond, func(v ssa.Value) bool {
				lk, ok := v.(*ssa.Lookup)
				if !ok {
					return false
				}
				if isCtx(lk.Index.Type()) || (core.TypePkgPath(lk.Index.Type()) == "go.opentelemetry.io/otel/trace" && core.TypeName(lk.Index.Type()) == "Span") {
					return true
				}
				if core.DerivesFrom(lk.Index, func(w ssa.Value) bool {
					c2, ok := w.(*ssa.Call)
					return ok && c2.Call.Method != nil && c2.Call.Method.Name() == "SpanID" ||
						ok && c2.Call.StaticCallee() != nil && c2.Call.StaticCallee().Name() == "SpanID"
				}) {
					return true
				}
				coarse = lk.Index.Type().String()
				return false
			})
			if !okSkip {
				if coarse != "" {
					msg = "contributors are de-duplicated by a key of type " + coarse + " that does not identify the contributor's span (distinct spans sharing it get no link)"
				} else {
					msg = "a contributor can be skipped for a reason other than 'context already seen'"
				}
				found = false
				return
			}
		}
		_ = body
		found = true
		msg = "ranges over all contributors, de-duplicating by context"
	})
	return found, msg
}

// ---- C18.4 ----

func c18_4(c *core.Ctx, p *core.Prog) {
	a := newCBPAnchors(p)
	if !a.ok(c) {
		return
	}
	fn := a.apportionFn()
	n := 0
	if f := pendingFieldOf(a); f != nil {
		for _, cp := range headCopies(fn, f) {
			n++
			c.OK(fmt.Sprintf("tuple#%d", n), p.Pos(cp.Pos()), core.FuncName(fn), "the contributor record is a copy of the head entry: context and channel are its own")
		}
	}
	core.EachInstr(fn, func(i ssa.Instruction) {
		al, ok := i.(*ssa.Alloc)
		if !ok {
			return
		}
		st, ok := al.Type().(*types.Pointer).Elem().Underlying().(*types.Struct)
		if !ok || len(ctxFields(al.Type().(*types.Pointer).Elem())) == 0 {
			return
		}
		named := core.NamedOf(al.Type())
		if named == nil || named.Obj().Pkg() == nil || named.Obj().Pkg().Path() != core.CBPPath {
			return
		}
		_ = st
		var ctxPath, chPath string
		var ctxSeen, chSeen bool
		for _, r := range core.Referrers(al) {
			fa, ok := r.(*ssa.FieldAddr)
			if !ok {
				continue
			}
			for _, r2 := range core.Referrers(fa) {
				s, ok := r2.(*ssa.Store)
				if !ok || s.Addr != fa {
					continue
				}
				fv := core.FieldVar(fa)
				switch {
				case isCtx(fv.Type()):
					ctxSeen = true
					ctxPath = core.AccessPath(s.Val)
				default:
					if _, isCh := fv.Type().Underlying().(*types.Chan); isCh {
						chSeen = true
						chPath = core.AccessPath(s.Val)
					}
				}
			}
		}
		if !ctxSeen || !chSeen {
			return
		}
		n++
		key := fmt.Sprintf("tuple#%d", n)
		pos := p.Pos(al.Pos())
		cut := func(s string) string {
			if k := strings.LastIndex(s, "."); k >= 0 {
				return s[:k]
			}
			return ""
		}
		if ctxPath == "" || chPath == "" {
			c.Undecided(key, pos, core.FuncName(fn), "source of the contributor tuple's context / channel not recognised")
			return
		}
		if cut(ctxPath) != cut(chPath) {
			c.Viol(key, pos, core.FuncName(fn), fmt.Sprintf("contributor tuple takes its response channel from %s but its context from %s: a caller would be cancelled by (or linked to) another caller's context", chPath, ctxPath))
			return
		}
		c.OK(key, pos, core.FuncName(fn), fmt.Sprintf("context %s and channel %s come from the same pending entry", ctxPath, chPath))
	})
}

// pendingFieldOf returns the shard's pending-list field (a slice of entries that carry a context).
func pendingFieldOf(a *cbpAnchors) *types.Var {
	st := core.FlatStruct(a.shard)
	var out *types.Var
	for i := 0; i < st.NumFields(); i++ {
		f := st.Field(i)
		if sl, ok := f.Type().Underlying().(*types.Slice); ok && len(ctxFields(sl.Elem())) > 0 {
			out = f
		}
	}
	return out
}
