package rules

import (
	"go/token"

	"golang.org/x/tools/go/ssa"

	"otelcheck/internal/core"
)

// C07.10 / C07.11 reader protocol in the consumer.
// C07.10: (*ipc.Reader).Record() is called only where Next() of the same reader
// returned true: Next() is false both on error and at the end of the input
// (an emptied payload on an open stream), and Record() is then a nil interface.
// C07.11: the record is retained before the reader it came from can be
// advanced or released again — on every path from Record() to any later
// Next()/Release() of an ipc reader (including the next loop iteration) the
// Retain() call comes first; a record kept un-retained across another reader
// operation is freed under the decoder's feet (duplicated payloads, evicted
// stream consumers).
func isIPCReaderCall(i ssa.Instruction, names ...string) (*ssa.Call, bool) {
	cl, ok := i.(*ssa.Call)
	if !ok {
		return nil, false
	}
	f := core.CalleeObj(cl)
	if f == nil || !core.IsMethodOf(f, arrowIPC, "Reader", f.Name()) {
		return nil, false
	}
	for _, n := range names {
		if f.Name() == n {
			return cl, true
		}
	}
	return nil, false
}

func c07_10(c *core.Ctx, p *core.Prog) {
	reach := repoReach(p, p.CHA(), consumerEntries(p))
	n := 0
	for _, fn := range sortedFuncs(p, reach) {
		if fn.Synthetic != "" {
			continue
		}
		var records []*ssa.Call
		core.EachInstr(fn, func(i ssa.Instruction) {
			if cl, ok := isIPCReaderCall(i, "Record"); ok {
				records = append(records, cl)
			}
			// Read() advances the reader unconditionally and overwrites its error: Next() is what keeps a
			// stream error sticky. A stream whose batch was refused (memory limit, damaged payload) is then
			// silently revived by the next batch, without the dictionaries of the payloads it skipped
			if cl, ok := isIPCReaderCall(i, "Read"); ok {
				n++
				c.Viol("fn="+core.FuncName(fn)+"|Read", p.Pos(cl.Pos()), core.FuncName(fn), "the IPC reader is advanced with Read(), which (unlike Next()) does not keep a stream error sticky: after a batch was refused — by the memory limit, say — the following batches of that stream are decoded from a reader that skipped payloads, and fail with errors that are not the limit error (or decode against missing dictionaries)")
			}
		})
		for k, rec := range records {
			n++
			key := "fn=" + core.FuncName(fn)
			if k > 0 {
				key += "#" + string(rune('1'+k))
			}
			// C07.10: guarded by Next() == true of the same reader
			guarded := false
			for _, b := range fn.Blocks {
				iff := core.IfOf(b)
				if iff == nil {
					continue
				}
				cond := iff.Cond
				arm := true
				if u, ok := cond.(*ssa.UnOp); ok && u.Op == token.NOT {
					cond, arm = u.X, false
				}
				nx, ok := cond.(*ssa.Call)
				if !ok {
					continue
				}
				if _, isNext := isIPCReaderCall(nx, "Next"); !isNext {
					continue
				}
				if !(core.SameValue(nx.Call.Args[0], rec.Call.Args[0]) || core.StructEq(nx.Call.Args[0], rec.Call.Args[0], 0)) {
					continue
				}
				if core.GuardedBy(iff, arm, rec) {
					guarded = true
				}
			}
			c.Check(guarded, key+"|next", p.Pos(rec.Pos()), core.FuncName(fn),
				"Record() is called only where Next() of the same reader returned true",
				"Record() is called where Next() of the same reader may have returned false (it does so at the end of the input as well as on error): the record is a nil interface and the first method call on it panics — an emptied payload on an already open stream crashes the consumer")
			// C07.11: Retain before any further reader operation
			isRetain := func(i ssa.Instruction) bool {
				cl, ok := i.(*ssa.Call)
				if !ok || !cl.Call.IsInvoke() || cl.Call.Method.Name() != "Retain" {
					return false
				}
				return core.DerivesFrom(cl.Call.Value, func(x ssa.Value) bool { return x == ssa.Value(rec) })
			}
			var bad string
			core.EachInstr(fn, func(i ssa.Instruction) {
				op, ok := isIPCReaderCall(i, "Next", "Release")
				if !ok || bad != "" {
					return
				}
				if unretained, _ := (core.PathQuery{Fn: fn, From: rec, To: op, Avoid: isRetain}).Exists(); unretained {
					bad = core.CalleeObj(op).Name() + " at " + p.Pos(op.Pos())
				}
			})
			if bad == "" {
				// and before the function can return
				if unretained, _ := (core.PathQuery{Fn: fn, From: rec, Avoid: isRetain, ExitReturnOnly: true}).Exists(); unretained {
					bad = "a return"
				}
			}
			c.Check(bad == "", key+"|retain", p.Pos(rec.Pos()), core.FuncName(fn),
				"the record is retained before any reader is advanced or released again and before the function returns",
				"a path from Record() reaches "+bad+" before the record is retained: the reader owns the record until Retain, so advancing or releasing a reader (the same one for a duplicated payload, or an evicted one) frees a record of the current batch that the decoders then index")
		}
	}
	c.Stats["C07.10 Record() sites"] = n
}

func init() {
	register("C14", &core.Rule{ID: "C14.16", Title: "reader protocol: the IPC reader is advanced with Next() (sticky error) and its record taken only after Next()==true: a stream refused by the limit stays refused with the limit error", Mod: core.ModRoot, Floor: 2, Run: c07_10})
	register("C07", &core.Rule{ID: "C07.10", Title: "reader protocol: Record() only after Next()==true; Retain before any reader is advanced or released again", Mod: core.ModRoot, Floor: 2, Run: c07_10})
}
