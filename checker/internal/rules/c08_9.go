package rules

import (
	"fmt"
	"go/token"
	"go/types"
	"sort"

	"golang.org/x/tools/go/ssa"

	"otelcheck/internal/core"
)

// C08.9 index field stays in range (a small abstract interpretation). Some
// struct types keep an int field I that indexes slice fields S of the same
// struct (DictionaryField: currentIndex into indexTypes / indexMaxCard). The
// class invariant "tables nil, or 0 <= I < len(S)" is assumed at the entry of
// every method and must hold again at every return; inside a method the facts
//   r ∈ {In, Maybe}          I is a valid index
//   z ∈ {NonNil, Nil, Unknown} state of the tables
// are propagated forward over the CFG: I++ gives Maybe; I = len(S)-k (k>=1) and
// I = 0 give In; S = nil gives Nil; the branches of I < len(S), I >= len(S),
// S == nil, S != nil refine. An index expression S[I] needs In ∧ NonNil; a call
// of a sibling method that indexes needs In ∨ Nil (the callee tests nil itself);
// a return needs In ∨ Nil.

type idxFacts struct{ r, z uint8 } // r: 0 In, 1 Maybe; z: 0 NonNil, 1 Nil, 2 Unknown

func joinIdx(a, b idxFacts) idxFacts {
	o := a
	if b.r > o.r {
		o.r = b.r
	}
	if a.z != b.z {
		o.z = 2
	}
	return o
}

type idxClass struct {
	T        *types.Named
	I        *types.Var
	tables   map[*types.Var]bool
	internal map[*ssa.Function]bool // unexported methods only methods of the class call
}

func fieldLoadOf(v ssa.Value) *types.Var {
	if fa := core.LoadedField(v); fa != nil {
		return core.FieldVar(fa)
	}
	return nil
}

func findIdxClasses(fns []*ssa.Function) []*idxClass {
	byT := map[*types.Named]*idxClass{}
	for _, fn := range fns {
		core.EachInstr(fn, func(i ssa.Instruction) {
			ia, ok := i.(*ssa.IndexAddr)
			if !ok {
				return
			}
			sfa := core.LoadedField(ia.X)
			ifa := core.LoadedField(core.StripConv(ia.Index))
			if sfa == nil || ifa == nil {
				return
			}
			ts, ti := core.NamedOf(sfa.X.Type()), core.NamedOf(ifa.X.Type())
			if ts == nil || ts != ti {
				return
			}
			if _, isSl := core.FieldVar(sfa).Type().Underlying().(*types.Slice); !isSl {
				return
			}
			cl := byT[ts]
			if cl == nil {
				cl = &idxClass{T: ts, I: core.FieldVar(ifa), tables: map[*types.Var]bool{}}
				byT[ts] = cl
			}
			if cl.I == core.FieldVar(ifa) {
				cl.tables[core.FieldVar(sfa)] = true
			}
		})
	}
	var out []*idxClass
	for _, c := range byT {
		out = append(out, c)
	}
	sort.Slice(out, func(i, j int) bool { return out[i].T.Obj().Name() < out[j].T.Obj().Name() })
	return out
}

func c08_9(c *core.Ctx, p *core.Prog) {
	var fns []*ssa.Function
	for _, fn := range sortedFuncs(p, encodeReach(p)) {
		if fn.Synthetic == "" && fn.Parent() == nil {
			fns = append(fns, fn)
		}
	}
	fns = append(fns, p.FuncsIn(func(pp string) bool { return core.IsCanaryPath(pp) && c.InScope(pp) })...)
	classes := findIdxClasses(fns)
	c.Stats["C08.9 index classes"] = len(classes)
	for _, cl := range classes {
		// methods of T
		// methods of T, and the promoted methods of repository structs embedded in T (counters moved into an embedded
		// sub-struct keep their methods callable on T; they cannot reach the index state, so they keep the invariant)
		embedded := map[*types.Named]bool{}
		if st := core.FlatStruct(cl.T); st != nil {
			for k := 0; k < st.NumFields(); k++ {
				if f := st.Field(k); f.Embedded() {
					if n := core.NamedOf(f.Type()); n != nil && n != cl.T && n.Obj().Pkg() == cl.T.Obj().Pkg() {
						embedded[n] = true
					}
				}
			}
		}
		var methods []*ssa.Function
		for _, fn := range fns {
			if fn.Signature.Recv() != nil && (core.NamedOf(fn.Signature.Recv().Type()) == cl.T || embedded[core.NamedOf(fn.Signature.Recv().Type())]) {
				methods = append(methods, fn)
			}
		}
		indexUser := map[*ssa.Function]bool{}
		for _, m := range methods {
			core.EachInstr(m, func(i ssa.Instruction) {
				if ia, ok := i.(*ssa.IndexAddr); ok {
					if f := fieldLoadOf(ia.X); f != nil && cl.tables[f] && fieldLoadOf(core.StripConv(ia.Index)) == cl.I {
						indexUser[m] = true
					}
				}
			})
		}
		// internal helpers: unexported methods that only methods of the class call (`t.requestReset()`,
		// `t.upgradeIndexType(…)`): they are not entered from outside, so the class invariant need not hold at their
		// entry; they are analysed in the state of each call site instead
		cl.internal = map[*ssa.Function]bool{}
		isMethod := map[*ssa.Function]bool{}
		for _, m := range methods {
			isMethod[m] = true
		}
		for _, m := range methods {
			if m.Object() == nil || m.Object().Exported() {
				continue
			}
			inside, outside := 0, 0
			for _, g := range fns {
				for _, h := range core.WithClosures(g) {
					core.EachCall(h, func(ci ssa.CallInstruction) {
						if ci.Common().StaticCallee() == m {
							if isMethod[g] && g != m {
								inside++
							} else if g != m {
								outside++
							}
						}
					})
				}
			}
			if inside > 0 && outside == 0 {
				cl.internal[m] = true
			}
		}
		for _, m := range methods {
			if cl.internal[m] && (indexUser[m] || idxStateWriter(m, cl)) {
				c.OK(fmt.Sprintf("type=%s|fn=%s", cl.T.Obj().Name(), m.Name()), p.Pos(m.Pos()), core.FuncName(m), "internal helper: analysed in the state of each of its call sites")
				continue
			}
			analyseIdxMethod(c, p, cl, m, indexUser)
		}
	}
}

func analyseIdxMethod(c *core.Ctx, p *core.Prog, cl *idxClass, fn *ssa.Function, indexUser map[*ssa.Function]bool) {
	isLenOfTable := func(v ssa.Value) bool {
		call, ok := core.StripConv(v).(*ssa.Call)
		if !ok {
			return false
		}
		bi, ok := call.Call.Value.(*ssa.Builtin)
		if !ok || bi.Name() != "len" {
			return false
		}
		f := fieldLoadOf(call.Call.Args[0])
		return f != nil && cl.tables[f]
	}
	isI := func(v ssa.Value) bool { return fieldLoadOf(core.StripConv(v)) == cl.I }
	// refine(cond, arm)
	refine := func(st idxFacts, cond ssa.Value, arm bool) idxFacts {
		if u, ok := cond.(*ssa.UnOp); ok && u.Op == token.NOT {
			cond, arm = u.X, !arm
		}
		bo, ok := cond.(*ssa.BinOp)
		if !ok {
			return st
		}
		op, x, y := bo.Op, bo.X, bo.Y
		// len(S) + c
		lenPlus := func(v ssa.Value) (int64, bool) {
			v = core.StripConv(v)
			if isLenOfTable(v) {
				return 0, true
			}
			if b2, ok := v.(*ssa.BinOp); ok && (b2.Op == token.SUB || b2.Op == token.ADD) && isLenOfTable(b2.X) {
				if k, ok := core.ConstInt(b2.Y); ok {
					if b2.Op == token.SUB {
						k = -k
					}
					return k, true
				}
			}
			return 0, false
		}
		// normalise len(S)+c OP I  →  I OP' len(S)+c
		if _, isL := lenPlus(x); isL && isI(y) {
			x, y = y, x
			switch op {
			case token.GTR:
				op = token.LSS
			case token.GEQ:
				op = token.LEQ
			case token.LSS:
				op = token.GTR
			case token.LEQ:
				op = token.GEQ
			}
		}
		if k, isL := lenPlus(y); isI(x) && isL {
			// express as I < len + d (true means in range when d <= 0) or I >= len + d
			var lt bool
			var d int64
			switch op {
			case token.LSS:
				lt, d = true, k
			case token.LEQ:
				lt, d = true, k+1
			case token.GEQ:
				lt, d = false, k
			case token.GTR:
				lt, d = false, k+1
			default:
				return st
			}
			inSide := lt // the side (truth value of cond) on which I < len + d holds
			holds := arm == inSide
			switch {
			case holds && d <= 0:
				return idxFacts{0, 0} // I < len + d <= len
			case !holds && d >= 0:
				return idxFacts{1, st.z} // I >= len + d >= len : out of range
			default:
				return idxFacts{1, st.z}
			}
		}
		if f := fieldLoadOf(x); f != nil && cl.tables[f] && core.IsNilConst(y) {
			isNilOnTrue := op == token.EQL
			if op != token.EQL && op != token.NEQ {
				return st
			}
			if isNilOnTrue == arm {
				return idxFacts{st.r, 1}
			}
			return idxFacts{st.r, 0}
		}
		return st
	}
	type finding struct {
		pos token.Pos
		msg string
		key string
	}
	var findings []finding
	// summarise: the state in which a method of the same type leaves, entered in state entry — the effect a call of
	// a helper (`t.requestReset()`, `t.overflow(…)`) has on the index and the tables, computed with the same
	// transfer functions; the helper's own uses are judged when the helper is analysed as a method of the class
	var run func(f *ssa.Function, entry idxFacts, collect bool, depth int) (idxFacts, bool)
	run = func(f *ssa.Function, entry idxFacts, collect bool, depth int) (idxFacts, bool) {
		infeasible := core.EnumInfeasible(f)
		in := map[*ssa.BasicBlock]idxFacts{f.Blocks[0]: entry}
		have := map[*ssa.BasicBlock]bool{f.Blocks[0]: true}
		writes := false
		var exit idxFacts
		haveExit := false
		for round := 0; round < 12; round++ {
			changed := false
			if collect && depth == 0 {
				findings = findings[:0]
			}
			haveExit = false
			nSite := 0
			for _, b := range f.Blocks {
				if !have[b] {
					continue
				}
				st := in[b]
				for _, ins := range b.Instrs {
					switch x := ins.(type) {
					case *ssa.Store:
						fa, ok := x.Addr.(*ssa.FieldAddr)
						if !ok || core.NamedOf(fa.X.Type()) != cl.T {
							break
						}
						fv := core.FieldVar(fa)
						if fv == cl.I {
							writes = true
							v := core.StripConv(x.Val)
							switch {
							case func() bool { k, ok := core.ConstInt(v); return ok && k == 0 }():
								st.r = 0
							case func() bool {
								bo, ok := v.(*ssa.BinOp)
								if !ok || bo.Op != token.SUB || !isLenOfTable(bo.X) {
									return false
								}
								k, ok := core.ConstInt(bo.Y)
								return ok && k >= 1
							}():
								st.r = 0
							default:
								st.r = 1
							}
						} else if cl.tables[fv] {
							writes = true
							if core.IsNilConst(x.Val) {
								st.z = 1
							} else {
								st.z = 2
							}
						}
					case *ssa.IndexAddr:
						if fl := fieldLoadOf(x.X); fl != nil && cl.tables[fl] && isI(x.Index) {
							nSite++
							if collect && !(st.r == 0 && st.z == 0) {
								findings = append(findings, finding{x.Pos(), fmt.Sprintf("%s[%s] is evaluated where %s may be out of range or the table nil (after an increment or before the clamp, with no dominating range test)", fl.Name(), cl.I.Name(), cl.I.Name()), fmt.Sprintf("index#%d", nSite)})
							}
						}
					case *ssa.Call:
						callee := core.StaticCallee(x)
						if callee != nil && cl.internal[callee] && callee != f && depth < 2 && len(callee.Blocks) > 0 {
							// an internal helper: its uses and its effect, in this call's state
							if ex, ok := run(callee, st, collect, depth+1); ok {
								st = ex
								if idxStateWriter(callee, cl) {
									writes = true
								}
							}
							break
						}
						if callee != nil && indexUser[callee] && callee != f {
							nSite++
							if collect && !(st.r == 0 || st.z == 1) {
								findings = append(findings, finding{x.Pos(), fmt.Sprintf("%s() indexes the tables with %s, but is called where %s may be out of range (e.g. right after the width search ran past the last width and before the clamp): index out of range panic", callee.Name(), cl.I.Name(), cl.I.Name()), fmt.Sprintf("call#%d", nSite)})
							}
						}
						// a helper of the same type that changes the index or the tables: its effect
						if callee != nil && callee != f && depth < 2 && len(callee.Blocks) > 0 && callee.Signature.Recv() != nil && core.NamedOf(callee.Signature.Recv().Type()) == cl.T && idxStateWriter(callee, cl) {
							if ex, ok := run(callee, st, false, depth+1); ok {
								st = ex
								writes = true
							}
						}
					case *ssa.Return:
						if collect && depth == 0 && writes && !(st.r == 0 || st.z == 1) {
							findings = append(findings, finding{x.Pos(), fmt.Sprintf("%s returns with %s possibly out of range: the next method that indexes the tables panics", f.Name(), cl.I.Name()), "return"})
						}
						if !haveExit {
							exit, haveExit = st, true
						} else {
							exit = joinIdx(exit, st)
						}
					}
				}
				iff := core.IfOf(b)
				for si, sb := range b.Succs {
					if infeasible[core.Edge{From: b, To: sb}] {
						continue
					}
					ns := st
					if iff != nil && len(b.Succs) == 2 {
						ns = refine(st, iff.Cond, si == 0)
					}
					if !have[sb] {
						have[sb] = true
						in[sb] = ns
						changed = true
					} else if j := joinIdx(in[sb], ns); j != in[sb] {
						in[sb] = j
						changed = true
					}
				}
			}
			if !changed {
				break
			}
		}
		return exit, haveExit
	}
	run(fn, idxFacts{0, 2}, true, 0)
	key := fmt.Sprintf("type=%s|fn=%s", cl.T.Obj().Name(), fn.Name())
	if len(findings) == 0 {
		c.OK(key, p.Pos(fn.Pos()), core.FuncName(fn), fmt.Sprintf("every use of %s as an index is in range and the invariant holds at every return", cl.I.Name()))
		return
	}
	f := findings[0]
	c.Viol(key, p.Pos(f.pos), core.FuncName(fn), f.msg)
}

func init() {
	register("C08", &core.Rule{ID: "C08.9", Title: "index fields stay in range: every table[index] and every return of the index state machine is under the range invariant", Mod: core.ModRoot, Floor: 5, Run: c08_9})
	register("C13", &core.Rule{ID: "C13.8", Title: "the index-width state machine keeps its index in range on every path", Mod: core.ModRoot, Floor: 5, Run: c08_9})
	register("C04", &core.Rule{ID: "C04.9", Title: "the index-width state machine keeps its index in range on every path (schema evolution cannot crash the producer)", Mod: core.ModRoot, Floor: 5, Run: c08_9})
}

// idxStateWriter: f stores to the index field or to one of the tables of the class.
func idxStateWriter(f *ssa.Function, cl *idxClass) bool {
	w := false
	core.EachInstr(f, func(i ssa.Instruction) {
		if st, ok := i.(*ssa.Store); ok {
			if fa, ok := st.Addr.(*ssa.FieldAddr); ok && core.NamedOf(fa.X.Type()) == cl.T {
				if fv := core.FieldVar(fa); fv == cl.I || cl.tables[fv] {
					w = true
				}
			}
		}
	})
	return w
}
