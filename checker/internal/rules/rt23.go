package rules

import (
	"fmt"
	"os"
	"strings"

	"golang.org/x/tools/go/ssa"

	"otelcheck/internal/core"
)

// RT.23 accessor null discipline. The encoders write the zero value of an
// optional column as null; the typed accessors of pkg/arrow turn a null slot
// back into the zero value (or nil for the *OrNil variants). Reading the slot of
// a null entry instead returns whatever the buffer holds — for a dictionary
// column index 0, i.e. another row's string. Every Value(i) / GetValueIndex(i)
// call on an arrow-go array inside pkg/arrow must therefore be dominated by the
// non-null edge of an IsNull / IsValid test in the same function.
func rt_23(c *core.Ctx, p *core.Prog) {
	decReach := repoReach(p, p.CHA(), consumerEntries(p))
	n := 0
	for _, fn := range sortedFuncs(p, decReach) {
		if core.FnPkgPath(fn) != pkgArrowUtils || fn.Synthetic != "" {
			continue
		}
		seen := 0
		core.EachInstr(fn, func(i ssa.Instruction) {
			cl, ok := i.(*ssa.Call)
			if !ok {
				return
			}
			f := core.CalleeObj(cl)
			if f == nil || f.Pkg() == nil || f.Pkg().Path() != arrowArray || (f.Name() != "Value" && f.Name() != "GetValueIndex") {
				return
			}
			n++
			seen++
			guarded := false
			for _, b := range fn.Blocks {
				iff := core.IfOf(b)
				if iff == nil {
					continue
				}
				cond := iff.Cond
				arm := true
				if u, isU := cond.(*ssa.UnOp); isU && u.Op.String() == "!" {
					cond, arm = u.X, false
				}
				tc, isC := cond.(*ssa.Call)
				if !isC {
					continue
				}
				tf := core.CalleeObj(tc)
				if tf == nil {
					continue
				}
				switch tf.Name() {
				case "IsNull":
					if core.GuardedBy(iff, !arm, cl) {
						guarded = true
					}
				case "IsValid":
					if core.GuardedBy(iff, arm, cl) {
						guarded = true
					}
				}
			}
			if os.Getenv("OTELCHECK_DEBUG") != "" && !guarded {
				fmt.Println("RT.23 unguarded", core.FuncName(fn), p.Pos(cl.Pos()))
			}
			// dictionary arms: the values array is indexed through GetValueIndex of the same dictionary array
			if f.Name() == "Value" && len(cl.Call.Args) == 2 {
				var dictArr ssa.Value
				core.BackSlice(cl.Call.Args[0], func(v ssa.Value) bool {
					if dc, isC := v.(*ssa.Call); isC {
						if df := core.CalleeObj(dc); df != nil && df.Name() == "Dictionary" && len(dc.Call.Args) == 1 {
							dictArr = dc.Call.Args[0]
							return false
						}
					}
					return true
				})
				if dictArr != nil {
					viaIndex := core.DerivesFrom(cl.Call.Args[1], func(v ssa.Value) bool {
						ic, isC := v.(*ssa.Call)
						if !isC {
							return false
						}
						jf := core.CalleeObj(ic)
						return jf != nil && jf.Name() == "GetValueIndex" && len(ic.Call.Args) == 2 && (ic.Call.Args[0] == dictArr || core.SameValue(ic.Call.Args[0], dictArr))
					})
					c.Check(viaIndex, fmt.Sprintf("fn=%s|dict#%d", core.FuncName(fn), seen), p.Pos(cl.Pos()), core.FuncName(fn),
						"the dictionary's values are indexed through GetValueIndex(row) of the same dictionary array",
						fn.Name()+" indexes the values of a dictionary with something else than GetValueIndex(row) of that dictionary array (e.g. the row number): every dictionary-encoded column decodes to the wrong entries")
				}
			}
			key := fmt.Sprintf("fn=%s|%s#%d", core.FuncName(fn), f.Name(), seen)
			c.Check(guarded, key, p.Pos(cl.Pos()), core.FuncName(fn),
				"the slot is read only on the non-null edge of an IsNull/IsValid test",
				fmt.Sprintf("%s reads %s(...) of an arrow array without a dominating IsNull/IsValid test: for a null slot (the encoders write zero values of optional columns as null) it returns what the buffer holds — for a dictionary column entry 0, another row's value — instead of the zero value", fn.Name(), strings.TrimPrefix(f.FullName(), "(*github.com/apache/arrow/go/v17/arrow/array.")))
		})
	}
	c.Stats["RT.23 slot reads in pkg/arrow"] = n
}

func init() {
	for _, prop := range []string{"C01", "C02", "C03"} {
		register(prop, &core.Rule{ID: "RT.23", Title: "accessor null discipline: pkg/arrow reads a slot only on the non-null edge of an IsNull/IsValid test", Mod: core.ModRoot, Floor: 20, Run: rt_23})
	}
}
