package rules

import (
	"fmt"
	"go/token"
	"go/types"
	"strings"

	"golang.org/x/tools/go/ssa"

	"otelcheck/internal/core"
)

// C08.10 typed accessors under their type test. pcommon.Value.Bytes(), Map()
// and Slice() return a wrapper around a nil pointer when the value holds
// another type; the first use of that wrapper (AsRaw, Len, Range, At) is a nil
// dereference. On the encode path every such accessor call must be dominated
// by the branch on which `v.Type()` (same value) equals the matching
// ValueType constant — as an arm of a switch over v.Type() or an explicit test.
var typedAccessor = map[string]string{"Bytes": "ValueTypeBytes", "Map": "ValueTypeMap", "Slice": "ValueTypeSlice"}

func c08_10(c *core.Ctx, p *core.Prog) {
	reach := encodeReach(p)
	fns := sortedFuncs(p, reach)
	fns = append(fns, p.FuncsIn(func(pp string) bool { return core.IsCanaryPath(pp) && c.InScope(pp) })...)
	// constant values of the ValueType enumeration
	vt := map[string]int64{}
	if pk := p.Pkg(core.PdataPath + "/pcommon"); pk != nil {
		for _, want := range typedAccessor {
			if o := pk.Types.Scope().Lookup(want); o != nil {
				if cst, ok := o.(*types.Const); ok {
					if k, ok := constantInt(cst); ok {
						vt[want] = k
					}
				}
			}
		}
	}
	if len(vt) != 3 {
		c.Undecided("anchors", "?", "", "pcommon.ValueType constants not resolved")
		return
	}
	n := 0
	for _, fn := range fns {
		if fn.Synthetic != "" {
			continue
		}
		seen := 0
		core.EachInstr(fn, func(i ssa.Instruction) {
			cl, ok := i.(*ssa.Call)
			if !ok {
				return
			}
			f := pdataCallee(cl)
			if f == nil || core.RecvNamed(f).Obj().Name() != "Value" || len(cl.Call.Args) != 1 {
				return
			}
			want, ok := typedAccessor[f.Name()]
			if !ok {
				return
			}
			// used at all?
			if len(core.Referrers(cl)) == 0 {
				return
			}
			n++
			seen++
			v := cl.Call.Args[0]
			guarded := typeGuarded(fn, cl, v, vt[want], 0)
			key := fmt.Sprintf("fn=%s|%s#%d", core.FuncName(fn), f.Name(), seen)
			c.Check(guarded, key, p.Pos(cl.Pos()), core.FuncName(fn),
				"Value."+f.Name()+"() is called only where Type()=="+want+" holds for the same value",
				"Value."+f.Name()+"() is called on "+valueLabel(v)+" without a dominating test that its Type() is "+strings.TrimPrefix(want, "ValueType")+": for a value of another type the accessor wraps a nil pointer and its first use panics (nil dereference) inside the producer")
		})
	}
	c.Stats["C08.10 typed accessor calls"] = n
}

func init() {
	for _, prop := range []string{"C01", "C02", "C03"} {
		register(prop, &core.Rule{ID: "RT.28", Title: "pcommon.Value typed accessors that wrap a pointer are called only under the matching Type() test (a value of another type must not crash the encoder)", Mod: core.ModRoot, Floor: 3, Run: c08_10, Canary: c08_10Canary})
	}
	register("C08", &core.Rule{ID: "C08.10", Title: "pcommon.Value typed accessors that wrap a pointer (Bytes, Map, Slice) are called only under the matching Type() test", Mod: core.ModRoot, Floor: 8, Run: c08_10, Canary: c08_10Canary})
}

const c08_10Canary = `package c

import "go.opentelemetry.io/collector/pdata/pcommon"

// BadUnguarded reads the bytes before looking at the type.
func BadUnguarded(a, b *pcommon.Value) int {
	bb := b.Bytes().AsRaw()
	if b.Type() == pcommon.ValueTypeBytes {
		return len(bb)
	}
	return 0
}

// GoodSameType compares the types first, then switches on one of them.
func GoodSameType(a, b *pcommon.Value) bool {
	if a.Type() != b.Type() {
		return false
	}
	switch a.Type() {
	case pcommon.ValueTypeBytes:
		return a.Bytes().Len() == b.Bytes().Len()
	}
	return true
}

// GoodGuarded reads under the test.
func GoodGuarded(a *pcommon.Value) int {
	switch a.Type() {
	case pcommon.ValueTypeBytes:
		return len(a.Bytes().AsRaw())
	case pcommon.ValueTypeMap:
		return a.Map().Len()
	}
	return 0
}
`

// typeGuarded: instruction at executes only where v.Type() == k held (for the same value v); for a
// closure the test may dominate the point in the enclosing function where the closure is made.
func typeGuarded(fn *ssa.Function, at ssa.Instruction, v ssa.Value, k int64, depth int) bool {
	for _, b := range fn.Blocks {
		iff := core.IfOf(b)
		if iff == nil {
			continue
		}
		bo, ok := iff.Cond.(*ssa.BinOp)
		if !ok || (bo.Op != token.EQL && bo.Op != token.NEQ) {
			continue
		}
		kk, isC := core.ConstInt(bo.Y)
		if !isC || kk != k {
			continue
		}
		// the Type() call itself, or a local it was read into once (`t := v.Type(); switch t {…}`: a cell when a
		// closure captures t)
		tc, ok := bo.X.(*ssa.Call)
		if !ok {
			tc, ok = core.Canon(bo.X).(*ssa.Call)
		}
		if !ok {
			continue
		}
		tf := pdataCallee(tc)
		if tf == nil || tf.Name() != "Type" || len(tc.Call.Args) != 1 {
			continue
		}
		x := tc.Call.Args[0]
		if !(x == v || core.SameValue(x, v) || core.StructEq(x, v, 0) || core.Canon(x) == core.Canon(v)) {
			continue
		}
		if core.GuardedBy(iff, bo.Op == token.EQL, at) {
			return true
		}
	}
	// `if v.Type() != w.Type() { return … }` first: from there on a test of w's type is a test of v's
	if depth <= 3 {
		typeRecv := func(x ssa.Value) ssa.Value {
			tc, ok := x.(*ssa.Call)
			if !ok {
				tc, ok = core.Canon(x).(*ssa.Call)
			}
			if !ok {
				return nil
			}
			if tf := pdataCallee(tc); tf == nil || tf.Name() != "Type" || len(tc.Call.Args) != 1 {
				return nil
			}
			return tc.Call.Args[0]
		}
		same := func(x ssa.Value) bool {
			return x != nil && (x == v || core.SameValue(x, v) || core.StructEq(x, v, 0) || core.Canon(x) == core.Canon(v))
		}
		for _, b := range fn.Blocks {
			iff := core.IfOf(b)
			if iff == nil {
				continue
			}
			bo, ok := iff.Cond.(*ssa.BinOp)
			if !ok || (bo.Op != token.EQL && bo.Op != token.NEQ) {
				continue
			}
			a, w := typeRecv(bo.X), typeRecv(bo.Y)
			if a == nil || w == nil {
				continue
			}
			var other ssa.Value
			switch {
			case same(a) && !same(w):
				other = w
			case same(w) && !same(a):
				other = a
			default:
				continue
			}
			if core.GuardedBy(iff, bo.Op == token.EQL, at) && typeGuarded(fn, at, other, k, depth+4) {
				return true
			}
		}
	}
	if fn.Parent() == nil || depth > 3 {
		return false
	}
	ok := false
	found := false
	core.EachInstr(fn.Parent(), func(i ssa.Instruction) {
		mc, isMC := i.(*ssa.MakeClosure)
		if !isMC || mc.Fn != ssa.Value(fn) {
			return
		}
		found = true
		if typeGuarded(fn.Parent(), mc, core.Canon(v), k, depth+1) {
			ok = true
		}
	})
	return found && ok
}
