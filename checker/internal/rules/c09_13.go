package rules

import (
	"fmt"
	"go/types"

	"golang.org/x/tools/go/ssa"

	"otelcheck/internal/core"
)

// C09.13 — the batch timer is armed with the configured timeout, nothing else.
//
// "No later than `timeout` after it was accepted" holds only if every arming of the shard's flush
// timer uses that duration. A scaled, stretched or backed-off interval (`timeout << idleTicks`,
// `2*timeout` after an empty tick) is invisible to tests that send right after start, and makes
// an item that arrives after an idle stretch wait a multiple of the deadline.
//
// Rule: the duration handed to every (*time.Timer).Reset and time.NewTimer in the batch
// processor is, conversions and single-assignment locals aside, a load of the processor's
// time.Duration field (the one C09.4 shows to be the configured timeout, verbatim).
func c09_13(c *core.Ctx, p *core.Prog) {
	a := newCBPAnchors(p)
	if !a.ok(c) {
		return
	}
	m := a.more()
	if !m.ok(c) || m.procType == nil {
		return
	}
	var timeoutF *types.Var
	ps := core.FlatStruct(m.procType)
	for i := 0; i < ps.NumFields(); i++ {
		f := ps.Field(i)
		if core.TypePkgPath(f.Type()) == "time" && core.TypeName(f.Type()) == "Duration" {
			timeoutF = f
		}
	}
	if timeoutF == nil {
		c.Undecided("anchors", "?", "", "the processor's time.Duration field not found")
		return
	}
	n := 0
	for _, top := range p.FuncsIn(func(pp string) bool { return pp == core.CBPPath }) {
		for _, fn := range core.WithClosures(top) {
			if fn != top && fn.Parent() == nil {
				continue
			}
			core.EachInstr(fn, func(i ssa.Instruction) {
				cl, ok := i.(*ssa.Call)
				if !ok {
					return
				}
				f := core.CalleeObj(cl)
				var d ssa.Value
				switch {
				case core.IsMethodOf(f, "time", "Timer", "Reset") && len(cl.Call.Args) == 2:
					d = cl.Call.Args[1]
				case core.IsPkgFunc(f, "time", "NewTimer") && len(cl.Call.Args) == 1:
					d = cl.Call.Args[0]
				default:
					return
				}
				n++
				v := core.StripConv(core.Canon(core.StripConv(d)))
				key := fmt.Sprintf("arm#%d@%s", n, core.FuncName(fn))
				isTimeout := func(x ssa.Value) bool {
					return isFieldLoad(core.StripConv(core.Canon(core.StripConv(x))), timeoutF)
				}
				okArm := isTimeout(v)
				if prm, isP := v.(*ssa.Parameter); isP && !okArm && fn.Parent() == nil {
					// a helper that is handed the duration (`resetTimer(t, timeout)`): every call site passes the field
					idx := -1
					for k, q := range fn.Params {
						if q == prm {
							idx = k
						}
					}
					sites, all := 0, true
					for _, g := range p.FuncsIn(func(pp string) bool { return pp == core.CBPPath }) {
						for _, g2 := range core.WithClosures(g) {
							core.EachCall(g2, func(ci ssa.CallInstruction) {
								if ci.Common().StaticCallee() != fn || idx < 0 || idx >= len(ci.Common().Args) {
									return
								}
								sites++
								if !isTimeout(ci.Common().Args[idx]) {
									all = false
								}
							})
						}
					}
					okArm = sites > 0 && all
				}
				c.Check(okArm, key, p.Pos(cl.Pos()), core.FuncName(fn), "armed with the configured timeout",
					"the batch timer is armed with something other than the configured timeout ("+timeoutF.Name()+") itself — a scaled or backed-off interval: an item accepted after an idle stretch is flushed later than `timeout` after it was accepted")
			})
		}
	}
	if n == 0 {
		c.Undecided("anchors", "?", "", "no arming of a timer found in the batch processor")
	}
}

func init() {
	register("C09", &core.Rule{ID: "C09.13", Title: "every arming of the batch timer uses exactly the configured timeout", Mod: core.ModCBP, Floor: 1, Run: c09_13})
}
