package rules

import (
	"fmt"
	"go/token"
	"go/types"
	"sort"
	"strings"

	"golang.org/x/tools/go/ssa"

	"otelcheck/internal/core"
)

func init() {
	core.Describe("C05",
		"Static necessary conditions of 'every accepted item exactly once, content intact', decided for all paths of the batch processor: "+
			"C05.1 every pdata RemoveIf callback removes exactly what it transferred (return true ⇒ moved on every path; return false ⇒ not moved; emptiness tests only when nothing was moved); "+
			"C05.2 every fragment container created while splitting receives every identity field its pdata type has (field set derived from the type's method set on every run); "+
			"C05.4 the request handed to the exporter never aliases the pending buffer (buffer replaced by a fresh value and the counter zeroed before returning it); "+
			"C05.5 the item-count unit agrees between admission, accumulation and the metric-type switches; "+
			"C05.6 on shutdown the shard loop drains the queue through the item handler and flushes a non-empty batch before returning; "+
			"C05.7 no value received from the queue is dropped unless it carries no data; "+
			"C05.8/C05.9 the size handed to the splitter, the amount subtracted from the counter and the reported 'sent' are one value, and the counter grows by the count of the very item that is moved in; "+
			"C05.10 capacity tests inside split callbacks never read a captured value derived from the running counter that is stale across invocations. "+
			"NOT decided: interleavings of goroutines, that pdata's MoveTo/RemoveIf/MoveAndAppendTo behave as documented, arithmetic of the running totals.",
		"pdata RemoveIf removes exactly the elements for which the callback returns true", "MoveTo leaves the source element empty; CopyTo leaves it intact")
	register("C05", &core.Rule{ID: "C05.1", Title: "RemoveIf callbacks remove exactly what they moved", Mod: core.ModCBP, Floor: 13, Run: c05_1, Canary: c05_1Canary})
	register("C05", &core.Rule{ID: "C05.2", Title: "fragment containers carry every identity field", Mod: core.ModCBP, Floor: 10, Run: c05_2, Canary: c05_2Canary})
}

const c05_1Canary = `package c

import "go.opentelemetry.io/collector/pdata/ptrace"

// BadLost removes a span it never moved.
func BadLost(src, dst ptrace.SpanSlice, n int) {
	i := 0
	src.RemoveIf(func(s ptrace.Span) bool {
		if i < n {
			i++
			if i%2 == 0 {
				s.MoveTo(dst.AppendEmpty())
			}
			return true
		}
		return false
	})
}

// BadDup keeps a span it copied out.
func BadDup(src, dst ptrace.SpanSlice) {
	src.RemoveIf(func(s ptrace.Span) bool {
		s.CopyTo(dst.AppendEmpty())
		return false
	})
}

// BadEmptied moves the span out but keeps the emptied shell.
func BadEmptied(src, dst ptrace.SpanSlice) {
	src.RemoveIf(func(s ptrace.Span) bool {
		s.MoveTo(dst.AppendEmpty())
		return s.Name() == ""
	})
}

func GoodMove(src, dst ptrace.SpanSlice, n int) {
	i := 0
	src.RemoveIf(func(s ptrace.Span) bool {
		if i < n {
			s.MoveTo(dst.AppendEmpty())
			i++
			return true
		}
		return false
	})
}

func GoodNested(src ptrace.ScopeSpansSlice, dst ptrace.SpanSlice) {
	src.RemoveIf(func(ss ptrace.ScopeSpans) bool {
		ss.Spans().RemoveIf(func(s ptrace.Span) bool {
			s.MoveTo(dst.AppendEmpty())
			return true
		})
		return ss.Spans().Len() == 0
	})
}
`

type mm struct{ may, must bool }

// transferState computes, per block exit, whether param was transferred
// (MoveTo/CopyTo with param as receiver) on some / on every path.
func transferState(fn *ssa.Function, param ssa.Value) (in, out map[*ssa.BasicBlock]mm, moveKind map[*ssa.BasicBlock]string) {
	gen := map[*ssa.BasicBlock]bool{}
	moveKind = map[*ssa.BasicBlock]string{}
	for _, b := range fn.Blocks {
		for _, i := range b.Instrs {
			if c, ok := i.(*ssa.Call); ok {
				f := pdataCallee(c)
				// the parameter itself, or a load of the cell it lives in when a nested closure captures it
				if f != nil && (f.Name() == "MoveTo" || f.Name() == "CopyTo") && len(c.Call.Args) > 0 && (c.Call.Args[0] == param || core.Canon(c.Call.Args[0]) == param) {
					gen[b] = true
					moveKind[b] = f.Name()
				}
			}
		}
	}
	in, out = map[*ssa.BasicBlock]mm{}, map[*ssa.BasicBlock]mm{}
	for _, b := range fn.Blocks {
		out[b] = mm{false, true}
	}
	for changed := true; changed; {
		changed = false
		for _, b := range fn.Blocks {
			var s mm
			if len(b.Preds) == 0 {
				s = mm{false, false}
			} else {
				s = mm{false, true}
				for _, p := range b.Preds {
					o := out[p]
					s.may = s.may || o.may
					s.must = s.must && o.must
				}
			}
			in[b] = s
			o := s
			if gen[b] {
				o = mm{true, true}
			}
			if o != out[b] {
				out[b] = o
				changed = true
			}
		}
	}
	return
}

// boolSummary classifies a boolean value: "true", "false", "empty" (an
// emptiness test x.Len()==0 rooted at root), "other".
func boolSummary(v ssa.Value, root ssa.Value, depth int) string {
	if b, ok := core.ConstBool(v); ok {
		if b {
			return "true"
		}
		return "false"
	}
	switch x := v.(type) {
	case *ssa.BinOp:
		if x.Op == token.EQL {
			if k, ok := core.ConstInt(x.Y); ok && k == 0 {
				if c, ok := x.X.(*ssa.Call); ok {
					if f := pdataCallee(c); f != nil && f.Name() == "Len" {
						r, _ := pdataChain(c)
						if r == root || (r != nil && root != nil && core.Canon(r) == root) {
							return "empty"
						}
					}
				}
			}
		}
	case *ssa.Extract:
		if c, ok := x.Tuple.(*ssa.Call); ok {
			return resultSummary(c.Call.StaticCallee(), x.Index, depth+1)
		}
	case *ssa.Call:
		return resultSummary(x.Call.StaticCallee(), 0, depth+1)
	}
	return "other"
}

// resultSummary: all returns of fn agree on a constant for result idx.
func resultSummary(fn *ssa.Function, idx, depth int) string {
	if fn == nil || fn.Blocks == nil || depth > 3 || !core.InRepo(core.FnPkgPath(fn)) {
		return "other"
	}
	vals := map[string]bool{}
	for _, r := range core.Returns(fn) {
		v := r.Results[idx]
		if ph, ok := v.(*ssa.Phi); ok {
			for _, e := range ph.Edges {
				vals[boolSummary(e, nil, depth)] = true
			}
			continue
		}
		vals[boolSummary(v, nil, depth)] = true
	}
	if len(vals) == 1 {
		for k := range vals {
			return k
		}
	}
	return "other"
}

// removeIfCallbacks lists (call, closure) for every pdata RemoveIf call in fns.
func removeIfCallbacks(fns []*ssa.Function) (out []struct {
	call *ssa.Call
	clo  *ssa.Function
}) {
	for _, fn := range fns {
		core.EachInstr(fn, func(i ssa.Instruction) {
			c, ok := i.(*ssa.Call)
			if !ok {
				return
			}
			f := pdataCallee(c)
			if f == nil || f.Name() != "RemoveIf" || len(c.Call.Args) < 2 {
				return
			}
			clo := resolveCallback(c.Call.Args[1])
			out = append(out, struct {
				call *ssa.Call
				clo  *ssa.Function
			}{c, clo})
		})
	}
	return
}

func c05_1(c *core.Ctx, p *core.Prog) {
	for _, cb := range removeIfCallbacks(cbpFuncs(c, p)) {
		pos := p.Pos(cb.call.Pos())
		if cb.clo == nil || len(cb.clo.Params) != 1 {
			c.Undecided("callback@"+core.FuncName(cb.call.Parent()), pos, core.FuncName(cb.call.Parent()), "RemoveIf callback is not a function literal: cannot analyse")
			continue
		}
		clo := cb.clo
		param := clo.Params[0]
		_, out, kind := transferState(clo, param)
		in, _, _ := transferState(clo, param)
		_ = in
		var problems []string
		undec := false
		nret := 0
		for _, r := range core.Returns(clo) {
			type ev struct {
				v  ssa.Value
				st mm
			}
			var evs []ev
			if ph, ok := r.Results[0].(*ssa.Phi); ok && ph.Block() == r.Block() {
				for i, e := range ph.Edges {
					evs = append(evs, ev{e, out[r.Block().Preds[i]]})
				}
			} else {
				evs = append(evs, ev{r.Results[0], out[r.Block()]})
			}
			for _, e := range evs {
				nret++
				line := p.Pos(r.Pos())
				switch boolSummary(e.v, param, 0) {
				case "true":
					if !e.st.must {
						problems = append(problems, fmt.Sprintf("%s: returns true (element removed) on a path that did not move it out: the element is lost", line))
					}
				case "false":
					if e.st.may {
						problems = append(problems, fmt.Sprintf("%s: returns false (element kept) on a path that moved/copied it out: the element is duplicated or an emptied shell stays behind", line))
					}
				case "empty":
					if e.st.may {
						problems = append(problems, fmt.Sprintf("%s: element was moved out and the result is an emptiness test", line))
					}
				default:
					if e.st.may {
						problems = append(problems, fmt.Sprintf("%s: element was moved/copied out but the result is not the constant true", line))
					} else {
						undec = true
						problems = append(problems, fmt.Sprintf("%s: result form not recognised", line))
					}
				}
			}
		}
		_ = kind
		key := "callback=" + core.FuncName(clo)
		switch {
		case len(problems) > 0 && !undec:
			c.Viol(key, pos, core.FuncName(clo), "RemoveIf callback does not remove exactly what it transfers: "+strings.Join(problems, "; "))
		case len(problems) > 0:
			c.Undecided(key, pos, core.FuncName(clo), strings.Join(problems, "; "))
		default:
			c.OK(key, pos, core.FuncName(clo), fmt.Sprintf("%d return(s): removed ⇔ transferred on every path", nret))
		}
	}
}

// ---------------- C05.2 ----------------

const c05_2Canary = `package c

import "go.opentelemetry.io/collector/pdata/ptrace"

// BadNoSchemaURL copies the resource but forgets the schema URL.
func BadNoSchemaURL(src ptrace.ResourceSpansSlice, dest ptrace.Traces) {
	src.RemoveIf(func(srcRs ptrace.ResourceSpans) bool {
		destRs := dest.ResourceSpans().AppendEmpty()
		srcRs.Resource().CopyTo(destRs.Resource())
		srcRs.ScopeSpans().MoveAndAppendTo(destRs.ScopeSpans())
		return true
	})
}

func GoodAll(src ptrace.ResourceSpansSlice, dest ptrace.Traces) {
	src.RemoveIf(func(srcRs ptrace.ResourceSpans) bool {
		destRs := dest.ResourceSpans().AppendEmpty()
		srcRs.Resource().CopyTo(destRs.Resource())
		destRs.SetSchemaUrl(srcRs.SchemaUrl())
		srcRs.ScopeSpans().MoveAndAppendTo(destRs.ScopeSpans())
		return true
	})
}
`

type identPair struct {
	dst    ssa.Value
	typ    types.Type
	srcLbl string
	fields map[string]bool
	pos    token.Pos
	fn     *ssa.Function
}

func c05_2(c *core.Ctx, p *core.Prog) {
	helperPairs := map[*ssa.Function][][2]int{}
	tops := cbpFuncs(c, p)
	// two passes so that helper pairs discovered at call sites are known when
	// the helper itself is analysed
	for pass := 0; pass < 2; pass++ {
		if pass == 1 {
			c05_2pass(c, p, tops, helperPairs, true)
		} else {
			c05_2pass(c, p, tops, helperPairs, false)
		}
	}
}

func c05_2pass(c *core.Ctx, p *core.Prog, tops []*ssa.Function, helperPairs map[*ssa.Function][][2]int, report bool) {
	for _, top := range tops {
		if top.Parent() != nil {
			continue // closures are analysed with their enclosing function
		}
		pairs := map[ssa.Value]*identPair{}
		get := func(dst ssa.Value, src string, pos token.Pos, fn *ssa.Function) *identPair {
			dst = core.Canon(dst)
			ip := pairs[dst]
			if ip == nil {
				ip = &identPair{dst: dst, typ: dst.Type(), srcLbl: src, fields: map[string]bool{}, pos: pos, fn: fn}
				pairs[dst] = ip
			}
			return ip
		}
		fns := core.WithClosures(top)
		for _, hp := range helperPairs[top] {
			if hp[0] < len(top.Params) && hp[1] < len(top.Params) {
				get(top.Params[hp[1]], valueLabel(top.Params[hp[0]]), top.Pos(), top)
			}
		}
		// (A) fresh fragment containers in RemoveIf callbacks
		for _, cb := range removeIfCallbacks(fns) {
			if cb.clo == nil || len(cb.clo.Params) != 1 {
				continue
			}
			param := cb.clo.Params[0]
			core.EachInstr(cb.clo, func(i ssa.Instruction) {
				call, ok := i.(*ssa.Call)
				if !ok {
					return
				}
				f := pdataCallee(call)
				if f == nil || f.Name() != "AppendEmpty" || !types.Identical(call.Type(), param.Type()) {
					return
				}
				// consumed by param.MoveTo(x), or handed to a helper together
				// with param (the helper's parameters then form the pair)?
				for _, r := range core.Referrers(call) {
					if mc, ok := r.(*ssa.Call); ok {
						if g := pdataCallee(mc); g != nil && (g.Name() == "MoveTo" || g.Name() == "CopyTo") && len(mc.Call.Args) == 2 && mc.Call.Args[1] == ssa.Value(call) {
							return
						}
						if callee := mc.Call.StaticCallee(); callee != nil && core.InRepo(core.FnPkgPath(callee)) && callee.Blocks != nil {
							si, di := -1, -1
							for k, a := range mc.Call.Args {
								if core.Canon(a) == ssa.Value(param) {
									si = k
								}
								if a == ssa.Value(call) {
									di = k
								}
							}
							if si >= 0 && di >= 0 {
								helperPairs[callee] = append(helperPairs[callee], [2]int{si, di})
								return
							}
						}
					}
				}
				get(call, valueLabel(param), call.Pos(), cb.clo)
			})
		}
		// (B) transfers dst.SetF(S.F()) and S.F().CopyTo(dst.F()) with S of dst's type
		for _, fn := range fns {
			core.EachInstr(fn, func(i ssa.Instruction) {
				call, ok := i.(*ssa.Call)
				if !ok {
					return
				}
				f := pdataCallee(call)
				if f == nil {
					return
				}
				switch {
				case strings.HasPrefix(f.Name(), "Set") && !strings.HasPrefix(f.Name(), "SetEmpty") && len(call.Call.Args) == 2:
					field := strings.TrimPrefix(f.Name(), "Set")
					dst := call.Call.Args[0]
					gc, ok := call.Call.Args[1].(*ssa.Call)
					if !ok {
						return
					}
					g := pdataCallee(gc)
					if g == nil || len(gc.Call.Args) != 1 || !types.Identical(gc.Call.Args[0].Type(), dst.Type()) {
						return
					}
					ip := get(dst, valueLabel(gc.Call.Args[0]), call.Pos(), fn)
					if g.Name() == field {
						ip.fields[field] = true
					}
				case f.Name() == "CopyTo" && len(call.Call.Args) == 2:
					sc, ok1 := call.Call.Args[0].(*ssa.Call)
					dc, ok2 := call.Call.Args[1].(*ssa.Call)
					if !ok1 || !ok2 {
						return
					}
					sf, df := pdataCallee(sc), pdataCallee(dc)
					if sf == nil || df == nil || len(sc.Call.Args) != 1 || len(dc.Call.Args) != 1 {
						return
					}
					src, dst := sc.Call.Args[0], dc.Call.Args[0]
					if !types.Identical(src.Type(), dst.Type()) || !isPdataType(src.Type()) {
						return
					}
					ip := get(dst, valueLabel(src), call.Pos(), fn)
					if sf.Name() == df.Name() {
						ip.fields[sf.Name()] = true
					}
				}
			})
		}
		// (C) oneof variants: dst2 := dst.SetEmptyX() where dst is already a pair
		for _, fn := range fns {
			core.EachInstr(fn, func(i ssa.Instruction) {
				call, ok := i.(*ssa.Call)
				if !ok {
					return
				}
				f := pdataCallee(call)
				if f == nil || !strings.HasPrefix(f.Name(), "SetEmpty") || len(call.Call.Args) != 1 {
					return
				}
				if parent, ok := pairs[core.Canon(call.Call.Args[0])]; ok {
					variant := strings.TrimPrefix(f.Name(), "SetEmpty")
					get(call, parent.srcLbl+"."+variant+"()", call.Pos(), fn)
				}
			})
		}
		if !report {
			continue
		}
		var list []*identPair
		for _, ip := range pairs {
			list = append(list, ip)
		}
		sort.Slice(list, func(i, j int) bool { return list[i].pos < list[j].pos })
		seenKey := map[string]int{}
		for _, ip := range list {
			want := identityFields(ip.typ)
			var missing []string
			for _, f := range want {
				if !ip.fields[f] {
					missing = append(missing, f)
				}
			}
			tn := core.TypeName(ip.typ)
			base := fmt.Sprintf("fn=%s|type=%s|src=%s", core.FuncName(top), tn, ip.srcLbl)
			seenKey[base]++
			if seenKey[base] > 1 {
				base += fmt.Sprintf("#%d", seenKey[base])
			}
			pos := p.Pos(ip.pos)
			if len(want) == 0 {
				c.OK(base, pos, core.FuncName(ip.fn), tn+" has no identity fields")
				continue
			}
			if len(missing) == 0 {
				c.OK(base, pos, core.FuncName(ip.fn), fmt.Sprintf("fragment %s receives all identity fields %v from %s", tn, want, ip.srcLbl))
				continue
			}
			for _, m := range missing {
				c.Viol(base+"|missing="+m, pos, core.FuncName(ip.fn), fmt.Sprintf("fragment container of type %s split off %s does not receive identity field %s (its type has %v): items moved into the fragment lose it", tn, ip.srcLbl, m, want))
			}
		}
	}
}

// ---------------- C05.4 / C05.8 / C05.9: the batch implementations ----------------

func init() {
	register("C05", &core.Rule{ID: "C05.4", Title: "exported request never aliases the pending buffer", Mod: core.ModCBP, Floor: 3, Run: c05_4})
	register("C05", &core.Rule{ID: "C05.5", Title: "item-count unit agreement", Mod: core.ModCBP, Floor: 4, Run: c05_5})
	register("C05", &core.Rule{ID: "C05.6", Title: "shutdown drains the queue and flushes", Mod: core.ModCBP, Floor: 3, Run: c05_6})
	register("C05", &core.Rule{ID: "C05.7", Title: "no received request is discarded (the loop hands it to the item handler, which adds it to the batch)", Mod: core.ModCBP, Floor: 2, Run: c05_7})
	register("C05", &core.Rule{ID: "C05.8", Title: "split size, counter decrement and reported size agree", Mod: core.ModCBP, Floor: 3, Run: c05_8})
	register("C05", &core.Rule{ID: "C05.9", Title: "counter follows content in add", Mod: core.ModCBP, Floor: 3, Run: c05_9})
	register("C06", &core.Rule{ID: "C06.10", Title: "add() appends the incoming request behind the pending items (the FIFO order the apportioning of responses relies on)", Mod: core.ModCBP, Floor: 3, Run: c05_9})
	register("C09", &core.Rule{ID: "C09.8", Title: "add() appends the incoming request behind the pending items (older items leave first when the buffer is cut)", Mod: core.ModCBP, Floor: 3, Run: c05_9})
	register("C05", &core.Rule{ID: "C05.10", Title: "capacity tests in split callbacks read live state", Mod: core.ModCBP, Floor: 10, Run: c05_10, Canary: c05_10Canary})
}

type batchImpl struct {
	typ      *types.Named
	counter  *types.Var // int field returned by itemCount
	data     *types.Var // pdata-typed field holding the pending batch
	countFn  *ssa.Function
	addFn    *ssa.Function
	splitFn  *ssa.Function
	exportFn *ssa.Function
	maxP     *ssa.Parameter // the max-size parameter of splitFn
}

// pureDelegate: fn does nothing but return the results of one call of a package function.
func pureDelegate(fn *ssa.Function) (*ssa.Function, *ssa.Call) {
	var call *ssa.Call
	n := 0
	core.EachInstr(fn, func(i ssa.Instruction) {
		if cl, ok := i.(*ssa.Call); ok {
			n++
			call = cl
		}
	})
	if n != 1 || call == nil {
		return nil, nil
	}
	h := call.Call.StaticCallee()
	if h == nil || h.Blocks == nil || core.FnPkgPath(h) != core.FnPkgPath(fn) {
		return nil, nil
	}
	for _, r := range core.Returns(fn) {
		for _, res := range r.Results {
			ex, ok := res.(*ssa.Extract)
			if res != ssa.Value(call) && !(ok && ex.Tuple == ssa.Value(call)) {
				return nil, nil
			}
		}
	}
	return h, call
}

func (a *cbpAnchors) impls() []*batchImpl {
	var out []*batchImpl
	for _, t := range a.batchImpls {
		bi := &batchImpl{typ: t}
		bi.countFn = a.implMethod(t, a.mCount)
		bi.addFn = a.implMethod(t, a.mAdd)
		bi.splitFn = a.implMethod(t, a.mSplit)
		bi.exportFn = a.implMethod(t, a.mExport)
		if bi.splitFn != nil && len(bi.splitFn.Params) >= 3 {
			bi.maxP = bi.splitFn.Params[2]
			// the method only delegates (`return takeRequest(max, &b.count, &b.data, split, newEmpty)`): the body
			// that is analysed is the helper's, its parameters standing for the arguments of this one call
			if h, hc := pureDelegate(bi.splitFn); h != nil {
				var mp *ssa.Parameter
				for k, pr := range h.Params {
					if k < len(hc.Call.Args) {
						core.BindParam(pr, hc.Call.Args[k])
						if core.StripConv(hc.Call.Args[k]) == ssa.Value(bi.maxP) {
							mp = pr
						}
					}
				}
				if mp != nil {
					bi.splitFn, bi.maxP = h, mp
				}
			}
		}
		if bi.countFn != nil {
			for _, r := range core.Returns(bi.countFn) {
				if fa := core.LoadedField(r.Results[0]); fa != nil {
					bi.counter = core.FieldVar(fa)
				}
			}
		}
		if st, ok := t.Underlying().(*types.Struct); ok {
			for i := 0; i < st.NumFields(); i++ {
				if isPdataType(st.Field(i).Type()) {
					if _, isStruct := st.Field(i).Type().Underlying().(*types.Struct); isStruct {
						bi.data = st.Field(i)
					}
				}
			}
		}
		out = append(out, bi)
	}
	sort.Slice(out, func(i, j int) bool { return out[i].typ.Obj().Name() < out[j].typ.Obj().Name() })
	return out
}

func isFieldLoad(v ssa.Value, f *types.Var) bool {
	fa := core.LoadedField(core.Strip(v))
	if fa == nil {
		// a local alias of the field (`sem := b.processor.sem`), also when a closure captures it (a cell with one store)
		fa = core.LoadedField(core.Strip(core.Canon(v)))
	}
	return fa != nil && core.FieldVar(fa) == f
}

func storesTo(ins ssa.Instruction, f *types.Var) (*ssa.Store, bool) {
	st, ok := ins.(*ssa.Store)
	if !ok {
		return nil, false
	}
	fa, ok := st.Addr.(*ssa.FieldAddr)
	if !ok {
		// through a pointer parameter bound to the field's address
		if prm, isP := st.Addr.(*ssa.Parameter); isP {
			fa, ok = core.ResolveParam(prm).(*ssa.FieldAddr)
		}
	}
	if !ok || core.FieldVar(fa) != f {
		return nil, false
	}
	return st, true
}

func c05_4(c *core.Ctx, p *core.Prog) {
	a := newCBPAnchors(p)
	if !a.ok(c) {
		return
	}
	for _, bi := range a.impls() {
		fn := bi.splitFn
		key := "impl=" + bi.typ.Obj().Name()
		if fn == nil || bi.counter == nil || bi.data == nil {
			c.Undecided(key, "?", "", "cannot resolve split method / counter / data field of "+bi.typ.Obj().Name())
			continue
		}
		pos := p.Pos(fn.Pos())
		// every load of the data field that reaches the returned request
		var aliasLoads []ssa.Instruction
		for _, r := range core.Returns(fn) {
			core.BackSlice(r.Results[1], func(v ssa.Value) bool {
				if _, isCall := v.(*ssa.Call); isCall {
					return false // results of the splitter are fresh values (C05.1/C05.2 look inside)
				}
				if isFieldLoad(v, bi.data) {
					// the load itself, not a conversion wrapped around it (which may sit after the buffer was replaced)
					aliasLoads = append(aliasLoads, core.Strip(v).(ssa.Instruction))
					return false
				}
				return true
			})
		}
		if len(aliasLoads) == 0 {
			c.Undecided(key, pos, core.FuncName(fn), "no path hands out the pending buffer: whole-batch arm not recognised")
			continue
		}
		okAll := true
		var msgs []string
		for _, ld := range aliasLoads {
			fresh := core.MustPassBetween(fn, ld, nil, func(i ssa.Instruction) bool {
				st, ok := storesTo(i, bi.data)
				if !ok {
					return false
				}
				call, ok := st.Val.(*ssa.Call)
				if !ok {
					return false
				}
				f := core.CalleeObj(call)
				return f != nil && f.Pkg() != nil && strings.HasPrefix(f.Pkg().Path(), core.PdataPath) && strings.HasPrefix(f.Name(), "New") && len(call.Call.Args) == 0
			})
			zeroed := core.MustPassBetween(fn, ld, nil, func(i ssa.Instruction) bool {
				st, ok := storesTo(i, bi.counter)
				if !ok {
					return false
				}
				k, isC := core.ConstInt(st.Val)
				return isC && k == 0
			})
			if !fresh {
				okAll = false
				msgs = append(msgs, fmt.Sprintf("%s: the pending buffer is handed to the exporter without being replaced by a fresh pdata value on every path: later requests are appended to a batch that is being exported", p.Pos(ld.Pos())))
			}
			if !zeroed {
				okAll = false
				msgs = append(msgs, fmt.Sprintf("%s: the item counter is not reset to 0 when the whole pending buffer is handed out", p.Pos(ld.Pos())))
			}
		}
		c.Check(okAll, key, pos, core.FuncName(fn), "whole-batch arm replaces the buffer with a fresh value and zeroes the counter before returning", strings.Join(msgs, "; "))
	}
}

func c05_8(c *core.Ctx, p *core.Prog) {
	a := newCBPAnchors(p)
	if !a.ok(c) {
		return
	}
	for _, bi := range a.impls() {
		fn := bi.splitFn
		key := "impl=" + bi.typ.Obj().Name()
		if fn == nil || bi.counter == nil || bi.data == nil || bi.maxP == nil {
			c.Undecided(key, "?", "", "cannot resolve split method of "+bi.typ.Obj().Name())
			continue
		}
		pos := p.Pos(fn.Pos())
		maxP := bi.maxP
		// the splitter call: static same-package call taking (int, T) returning T
		var split *ssa.Call
		core.EachInstr(fn, func(i ssa.Instruction) {
			if cl, ok := i.(*ssa.Call); ok {
				f := cl.Call.StaticCallee()
				if f == nil {
					f = core.BoundCallee(cl)
				}
				if f != nil && core.FnPkgPath(f) == core.CBPPath && len(cl.Call.Args) == 2 && types.Identical(cl.Call.Args[1].Type(), bi.data.Type()) {
					split = cl
				}
			}
		})
		if split == nil {
			c.Undecided(key, pos, core.FuncName(fn), "no call of a splitter (size, batch) found")
			continue
		}
		var msgs []string
		if core.StripConv(split.Call.Args[0]) != ssa.Value(maxP) {
			msgs = append(msgs, "the size passed to the splitter is not the max-size parameter")
		}
		if !isFieldLoad(split.Call.Args[1], bi.data) {
			msgs = append(msgs, "the splitter is not applied to the pending buffer")
		}
		// counter store on the split arm: counter = counter - max
		decOK := false
		core.EachInstr(fn, func(i ssa.Instruction) {
			st, ok := storesTo(i, bi.counter)
			if !ok || st.Block() != split.Block() && !core.Reachable(fn, split, st) {
				return
			}
			if b, ok := st.Val.(*ssa.BinOp); ok && b.Op == token.SUB && isFieldLoad(b.X, bi.counter) && core.StripConv(b.Y) == ssa.Value(maxP) {
				decOK = true
			}
		})
		if !decOK {
			msgs = append(msgs, "after splitting, the item counter is not decreased by exactly the size handed to the splitter")
		}
		// returned sent: on the split arm == max; on the whole arm == counter load before zeroing
		sawMax, sawCounter := false, false
		for _, r := range core.Returns(fn) {
			var edges []ssa.Value
			if ph, ok := r.Results[0].(*ssa.Phi); ok {
				edges = ph.Edges
			} else {
				edges = []ssa.Value{r.Results[0]}
			}
			for _, e := range edges {
				switch {
				case core.StripConv(e) == ssa.Value(maxP):
					sawMax = true
				case isFieldLoad(e, bi.counter):
					sawCounter = true
					// the load must precede the zeroing store
					ld := core.Strip(e).(ssa.Instruction)
					zeroBefore := false
					core.EachInstr(fn, func(i ssa.Instruction) {
						if st, ok := storesTo(i, bi.counter); ok {
							if k, isC := core.ConstInt(st.Val); isC && k == 0 && core.Reachable(fn, st, ld) {
								zeroBefore = true
							}
						}
					})
					if zeroBefore {
						msgs = append(msgs, "the reported size of a whole batch is read after the counter was zeroed")
					}
				default:
					msgs = append(msgs, fmt.Sprintf("reported batch size %s is neither the max-size parameter nor the item counter", e.Name()))
				}
			}
			// a return of its own for each arm (early-return form): the one after the split reports max, the other the counter
			if _, isPhi := r.Results[0].(*ssa.Phi); !isPhi {
				onSplit := core.Reachable(fn, split, r)
				if onSplit && core.StripConv(r.Results[0]) != ssa.Value(maxP) {
					msgs = append(msgs, "the return of the split arm does not report the max-size parameter")
				}
				if !onSplit && !isFieldLoad(r.Results[0], bi.counter) {
					msgs = append(msgs, "the return of the whole-batch arm does not report the item counter")
				}
			}
		}
		if !sawMax || !sawCounter {
			msgs = append(msgs, "expected the reported size to be max on the split arm and the counter on the whole-batch arm")
		}
		c.Check(len(msgs) == 0, key, pos, core.FuncName(fn), "splitter size, counter decrement and reported size are one value; whole-batch size is the counter before zeroing", strings.Join(msgs, "; "))
	}
}

var countMethodOf = map[string]string{"Traces": "SpanCount", "Metrics": "DataPointCount", "Logs": "LogRecordCount"}

func c05_9(c *core.Ctx, p *core.Prog) {
	a := newCBPAnchors(p)
	if !a.ok(c) {
		return
	}
	for _, bi := range a.impls() {
		fn := bi.addFn
		key := "impl=" + bi.typ.Obj().Name()
		if fn == nil || bi.counter == nil || bi.data == nil {
			c.Undecided(key, "?", "", "cannot resolve add method of "+bi.typ.Obj().Name())
			continue
		}
		pos := p.Pos(fn.Pos())
		var msgs []string
		// the moved item: X.<Resource*>().MoveAndAppendTo(bt.data.<Resource*>())
		var item ssa.Value
		nMove := 0
		core.EachInstr(fn, func(i ssa.Instruction) {
			cl, ok := i.(*ssa.Call)
			if !ok {
				return
			}
			f := pdataCallee(cl)
			if f == nil {
				return
			}
			switch f.Name() {
			case "MoveAndAppendTo":
				nMove++
				src, sc := pdataChain(cl.Call.Args[0])
				dst, dc := pdataChain(cl.Call.Args[1])
				if len(sc) != 1 || len(dc) != 1 || sc[0] != dc[0] {
					msgs = append(msgs, "MoveAndAppendTo does not move the item's top-level containers into the same list of the pending batch")
				}
				if !isFieldLoad(dst, bi.data) {
					if isFieldLoad(src, bi.data) {
						msgs = append(msgs, "the pending items are moved behind the incoming request (the buffer is appended to the request instead of the request to the buffer): the buffer is no longer in arrival order, so when it is cut the newest items leave first — responses are apportioned to the wrong callers and older items miss their flush")
					} else {
						msgs = append(msgs, "items are not moved into the pending buffer")
					}
				}
				item = src
			case "CopyTo":
				if types.Identical(cl.Call.Args[0].Type(), bi.data.Type()) {
					msgs = append(msgs, "the incoming batch is copied over the pending buffer (overwrites buffered items)")
				}
			}
		})
		if nMove != 1 || item == nil {
			msgs = append(msgs, fmt.Sprintf("expected exactly one MoveAndAppendTo into the pending buffer, found %d", nMove))
		}
		// counter store: counter = counter + N, N = item.<CountMethod>()
		inc := false
		core.EachInstr(fn, func(i ssa.Instruction) {
			st, ok := storesTo(i, bi.counter)
			if !ok {
				return
			}
			b, ok := st.Val.(*ssa.BinOp)
			if !ok || b.Op != token.ADD || !isFieldLoad(b.X, bi.counter) {
				msgs = append(msgs, "the item counter is assigned something other than counter + count(item)")
				return
			}
			cl, ok := b.Y.(*ssa.Call)
			if !ok {
				msgs = append(msgs, "the counter increment is not the item's own count")
				return
			}
			f := pdataCallee(cl)
			want := countMethodOf[core.TypeName(bi.data.Type())]
			if f == nil || f.Name() != want {
				msgs = append(msgs, fmt.Sprintf("the counter grows by %s, not by %s of the item", valueLabel(cl), want))
				return
			}
			if item != nil && cl.Call.Args[0] != item {
				msgs = append(msgs, "the counter grows by the count of a different value than the one whose containers are moved in")
				return
			}
			// the move must happen on every path on which the counter grew
			inc = true
		})
		if !inc && len(msgs) == 0 {
			msgs = append(msgs, "no increment of the item counter found")
		}
		// every path that increments also moves and vice versa
		if inc && item != nil {
			var incI, movI ssa.Instruction
			core.EachInstr(fn, func(i ssa.Instruction) {
				if _, ok := storesTo(i, bi.counter); ok {
					incI = i
				}
				if cl, ok := i.(*ssa.Call); ok {
					if f := pdataCallee(cl); f != nil && f.Name() == "MoveAndAppendTo" {
						movI = i
					}
				}
			})
			if incI != nil && movI != nil {
				first, second := incI, movI
				if core.Reachable(fn, movI, incI) {
					first, second = movI, incI
				}
				if !core.MustPassBetween(fn, first, nil, func(i ssa.Instruction) bool { return i == second }) {
					msgs = append(msgs, "a path updates the counter without moving the items in (or the reverse)")
				}
			}
		}
		c.Check(len(msgs) == 0, key, pos, core.FuncName(fn), "counter grows by the count of the very item whose containers are moved into the pending buffer", strings.Join(msgs, "; "))
	}
}

// ---------------- C05.5 ----------------

func c05_5(c *core.Ctx, p *core.Prog) {
	a := newCBPAnchors(p)
	if !a.ok(c) {
		return
	}
	m := a.more()
	if !m.ok(c) {
		return
	}
	// admission: in the enqueue function every pdata count method is applied to
	// a value type-asserted to the matching pdata type
	fn := m.enqueueFn
	seen := map[string]string{}
	core.EachInstr(fn, func(i ssa.Instruction) {
		cl, ok := i.(*ssa.Call)
		if !ok {
			return
		}
		f := pdataCallee(cl)
		if f == nil || len(cl.Call.Args) != 1 {
			return
		}
		tn := core.TypeName(cl.Call.Args[0].Type())
		if _, ok := countMethodOf[tn]; ok {
			seen[tn] = f.Name()
		}
	})
	for _, tn := range []string{"Logs", "Metrics", "Traces"} {
		key := "admission|type=" + tn
		got, ok := seen[tn]
		switch {
		case !ok:
			c.Viol(key, p.Pos(fn.Pos()), core.FuncName(fn), fmt.Sprintf("admission does not count the items of a %s request: it is treated as empty and dropped without error", tn))
		case got != countMethodOf[tn]:
			c.Viol(key, p.Pos(fn.Pos()), core.FuncName(fn), fmt.Sprintf("admission counts %s requests with %s but batches are counted with %s: the caller waits for a different number of items than are exported", tn, got, countMethodOf[tn]))
		default:
			c.OK(key, p.Pos(fn.Pos()), core.FuncName(fn), fmt.Sprintf("%s requests are counted with %s, the unit used by add", tn, got))
		}
	}
	// metric type switches agree: every function in the package that switches
	// on pmetric.MetricType covers the same set of types
	type sw struct {
		fn    *ssa.Function
		cases map[int64]bool
	}
	var sws []sw
	for _, f := range cbpFuncs(c, p) {
		cases := map[int64]bool{}
		core.EachInstr(f, func(i ssa.Instruction) {
			b, ok := i.(*ssa.BinOp)
			if !ok || b.Op != token.EQL {
				return
			}
			if core.TypeName(b.X.Type()) != "MetricType" || !isPdataType(b.X.Type()) {
				return
			}
			if k, ok := core.ConstInt(b.Y); ok {
				cases[k] = true
			}
		})
		if len(cases) > 0 {
			sws = append(sws, sw{f, cases})
		}
	}
	all := map[int64]bool{}
	for _, s := range sws {
		for k := range s.cases {
			all[k] = true
		}
	}
	// declared data-bearing metric types (every MetricType constant except Empty=0)
	if mt := p.Pkg(core.PdataPath + "/pmetric"); mt != nil {
		for _, name := range mt.Types.Scope().Names() {
			if cst, ok := mt.Types.Scope().Lookup(name).(*types.Const); ok && core.TypeName(cst.Type()) == "MetricType" {
				if v, ok := constantInt(cst); ok && v != 0 {
					all[v] = true
				}
			}
		}
	}
	for _, s := range sws {
		var missing []string
		for k := range all {
			if !s.cases[k] {
				missing = append(missing, fmt.Sprint(k))
			}
		}
		sort.Strings(missing)
		key := "metrictypes|fn=" + core.FuncName(s.fn)
		c.Check(len(missing) == 0, key, p.Pos(s.fn.Pos()), core.FuncName(s.fn),
			fmt.Sprintf("covers all %d data-bearing metric types", len(all)),
			fmt.Sprintf("switch over pmetric.MetricType misses type value(s) %v that sibling functions / pdata declare: data points of that type are miscounted or not split", missing))
	}
}

func constantInt(c *types.Const) (int64, bool) {
	v := c.Val()
	if v == nil {
		return 0, false
	}
	s := v.ExactString()
	var n int64
	_, err := fmt.Sscan(s, &n)
	return n, err == nil
}

// ---------------- C05.6 / C05.7 ----------------

func c05_6(c *core.Ctx, p *core.Prog) {
	a := newCBPAnchors(p)
	if !a.ok(c) {
		return
	}
	m := a.more()
	if !m.ok(c) {
		return
	}
	fn := m.loopFn
	pos := p.Pos(fn.Pos())
	// the shutdown arm of the main select
	shutIdx := -1
	for k, s := range m.mainSelect.States {
		if fa := core.LoadedField(s.Chan); fa != nil && core.FieldVar(fa) == m.shutdownChan && s.Dir == types.RecvOnly {
			shutIdx = k
		}
	}
	if shutIdx < 0 {
		c.Viol("shutdown-arm", pos, core.FuncName(fn), "the shard loop does not listen on the channel that Shutdown closes: it never terminates and buffered items are never flushed")
		return
	}
	arm, ok := selectArm(m.mainSelect, shutIdx)
	if !ok {
		c.Undecided("shutdown-arm", pos, core.FuncName(fn), "select lowering not recognised")
		return
	}
	c.OK("shutdown-arm", p.Pos(m.mainSelect.Pos()), core.FuncName(fn), "the shard loop listens on the channel that Shutdown closes")
	first := arm.To.Instrs[0]
	// the drain select: non-blocking receive on the item channel reachable from the arm
	var drain *ssa.Select
	core.EachInstr(fn, func(i ssa.Instruction) {
		s, ok := i.(*ssa.Select)
		if !ok || s.Blocking || len(s.States) != 1 || s.States[0].Dir != types.RecvOnly {
			return
		}
		if fa := core.LoadedField(s.States[0].Chan); fa == nil || core.FieldVar(fa) != m.itemChanField {
			return
		}
		if s.Block() == arm.To || core.Reachable(fn, first, s) {
			drain = s
		}
	})
	// the flush of a non-empty batch: the send function itself, or a package helper every path of which sends
	// unless the batch is empty
	countCut := func(f *ssa.Function) map[core.Edge]bool {
		cut := map[core.Edge]bool{}
		for _, b := range f.Blocks {
			iff := core.IfOf(b)
			if iff == nil {
				continue
			}
			if cmp, ok := iff.Cond.(*ssa.BinOp); ok && cmp.Op == token.GTR {
				if k, isC := core.ConstInt(cmp.Y); isC && k == 0 && core.DerivesFrom(cmp.X, func(v ssa.Value) bool {
					cl, ok := v.(*ssa.Call)
					return ok && cl.Call.IsInvoke() && cl.Call.Method == a.mCount
				}) {
					cut[core.Edge{From: b, To: b.Succs[1]}] = true
				}
			}
		}
		return cut
	}
	var isFlush func(i ssa.Instruction) bool
	flushHelper := map[*ssa.Function]int{}
	isFlush = func(i ssa.Instruction) bool {
		if isCallTo(i, a.sendFn) {
			return true
		}
		cl, ok := i.(*ssa.Call)
		if !ok {
			return false
		}
		h := cl.Call.StaticCallee()
		if h == nil || h.Pkg != fn.Pkg || len(h.Blocks) == 0 {
			return false
		}
		if v, ok := flushHelper[h]; ok {
			return v == 2
		}
		flushHelper[h] = 1
		miss, _ := (core.PathQuery{Fn: h, CutEdges: countCut(h), ExitReturnOnly: true, Avoid: isFlush}).Exists()
		if miss {
			flushHelper[h] = 1
			return false
		}
		flushHelper[h] = 2
		return true
	}
	// the drain may live in a helper called from the shutdown arm (`b.drainOnShutdown(); return`)
	region, regionFirst := fn, first
	var helperCall *ssa.Call
	var outer []*ssa.Call // calls on the way from the arm to the helper that drains, outermost first (helperCall is outer[0])
	if drain == nil {
		hasDrain := func(h *ssa.Function) *ssa.Select {
			var res *ssa.Select
			core.EachInstr(h, func(j ssa.Instruction) {
				s, ok := j.(*ssa.Select)
				if !ok || s.Blocking || len(s.States) != 1 || s.States[0].Dir != types.RecvOnly {
					return
				}
				if fa := core.LoadedField(s.States[0].Chan); fa != nil && core.FieldVar(fa) == m.itemChanField {
					res = s
				}
			})
			return res
		}
		core.EachInstr(fn, func(i ssa.Instruction) {
			cl, ok := i.(*ssa.Call)
			if !ok || helperCall != nil || !(cl.Block() == arm.To || core.Reachable(fn, first, cl)) {
				return
			}
			h := cl.Call.StaticCallee()
			if h == nil || h.Pkg != fn.Pkg || len(h.Blocks) == 0 {
				return
			}
			if s := hasDrain(h); s != nil {
				drain, helperCall, outer = s, cl, []*ssa.Call{cl}
				return
			}
			// one more level: `b.onShutdown()` calling `b.drainNewItems()`
			core.EachInstr(h, func(j ssa.Instruction) {
				c2, ok := j.(*ssa.Call)
				if !ok || drain != nil {
					return
				}
				h2 := c2.Call.StaticCallee()
				if h2 == nil || h2.Pkg != fn.Pkg || len(h2.Blocks) == 0 {
					return
				}
				if s := hasDrain(h2); s != nil {
					drain, helperCall, outer = s, cl, []*ssa.Call{cl, c2}
				}
			})
		})
		if drain != nil {
			region, regionFirst = drain.Parent(), drain.Parent().Blocks[0].Instrs[0]
		}
	}
	if drain == nil {
		c.Viol("drain", p.Pos(first.Pos()), core.FuncName(fn), "on shutdown the shard loop does not drain the request queue with a non-blocking receive: requests already queued are lost")
		return
	}
	if region != fn {
		// helper form: the clauses are evaluated inside the helper; what the loop does after the helper returned
		// (flush if the helper did not, then return) is checked on the loop
		recvEdge, ok1 := selectArm(drain, 0)
		defEdge, ok2 := selectArm(drain, 1)
		if !ok1 || !ok2 {
			c.Undecided("drain", p.Pos(drain.Pos()), core.FuncName(region), "select lowering not recognised")
			return
		}
		var msgs []string
		flushedInHelper := true
		for _, r := range core.Returns(region) {
			if ok, _ := (core.PathQuery{Fn: region, From: regionFirst, To: r, CutEdges: map[core.Edge]bool{defEdge: true}}).Exists(); ok {
				msgs = append(msgs, fmt.Sprintf("%s: the drain helper can return without having found the request queue empty", p.Pos(r.Pos())))
			}
			if defEdge.To.Instrs[0] != ssa.Instruction(r) && isFlush(defEdge.To.Instrs[0]) {
				continue
			}
			if ok, _ := (core.PathQuery{Fn: region, From: defEdge.To.Instrs[0], To: r, CutEdges: countCut(region), Avoid: isFlush}).Exists(); ok || defEdge.To.Instrs[0] == ssa.Instruction(r) {
				flushedInHelper = false
			}
		}
		// intermediate level (`onShutdown`): after the draining helper returned, does every path flush before returning?
		if !flushedInHelper && len(outer) == 2 {
			mid := outer[1].Parent()
			all := true
			for _, r := range core.Returns(mid) {
				if ok, _ := (core.PathQuery{Fn: mid, From: outer[1], To: r, CutEdges: countCut(mid), Avoid: isFlush}).Exists(); ok {
					all = false
				}
			}
			if all {
				flushedInHelper = true
			}
			if ok, _ := (core.PathQuery{Fn: mid, ExitReturnOnly: true, Avoid: func(i ssa.Instruction) bool { return i == ssa.Instruction(outer[1]) }}).Exists(); ok {
				msgs = append(msgs, "the shutdown helper can return without calling the drain helper")
			}
		}
		nret := 0
		for _, r := range core.Returns(fn) {
			if !core.Reachable(fn, helperCall, r) {
				continue
			}
			if ok, _ := (core.PathQuery{Fn: fn, From: nil, To: r, CutEdges: map[core.Edge]bool{arm: true}}).Exists(); ok {
				continue
			}
			nret++
			if !flushedInHelper {
				if ok, _ := (core.PathQuery{Fn: fn, From: helperCall, To: r, CutEdges: countCut(fn), Avoid: isFlush}).Exists(); ok {
					msgs = append(msgs, fmt.Sprintf("%s: after draining, a path returns without flushing a non-empty batch (no send and no itemCount()>0 test on it)", p.Pos(r.Pos())))
				}
			}
		}
		if nret == 0 {
			msgs = append(msgs, "the shutdown arm never returns: Shutdown would wait forever")
		}
		// nothing but the helper between the arm and the return that could lose the queue: the helper is called on every path of the arm
		if ok, _ := (core.PathQuery{Fn: fn, From: first, CutEdges: map[core.Edge]bool{}, ExitReturnOnly: true, Avoid: func(i ssa.Instruction) bool { return i == ssa.Instruction(helperCall) }}).Exists(); ok && first != ssa.Instruction(helperCall) {
			msgs = append(msgs, "the shutdown arm can return without calling the drain helper")
		}
		c.Check(len(msgs) == 0, "drain|return", p.Pos(drain.Pos()), core.FuncName(region), "every return after shutdown follows an empty-queue observation and a flush of a non-empty batch", strings.Join(msgs, "; "))
		handled := true
		if ok, _ := (core.PathQuery{Fn: region, From: recvEdge.To.Instrs[0], To: drain, Avoid: func(i ssa.Instruction) bool { return handlesItem(m, i) }}).Exists(); ok && !handlesItem(m, recvEdge.To.Instrs[0]) {
			handled = false
		}
		if ok, _ := (core.PathQuery{Fn: region, From: recvEdge.To.Instrs[0], To: nil, Avoid: func(i ssa.Instruction) bool { return handlesItem(m, i) }}).Exists(); ok && !handlesItem(m, recvEdge.To.Instrs[0]) {
			handled = false
		}
		c.Check(handled, "drain|handle", p.Pos(drain.Pos()), core.FuncName(region), "every request drained on shutdown is passed to the item handler", "a request received while draining on shutdown can bypass the item handler: its items are lost")
		return
	}
	recvEdge, ok1 := selectArm(drain, 0)
	defEdge, ok2 := selectArm(drain, 1)
	if !ok1 || !ok2 {
		c.Undecided("drain", p.Pos(drain.Pos()), core.FuncName(fn), "select lowering not recognised")
		return
	}
	// (1) every normal return reachable from the shutdown arm happens only after the queue was found empty
	var msgs []string
	nret := 0
	for _, r := range core.Returns(fn) {
		if !(r.Block() == arm.To || core.Reachable(fn, first, r)) {
			continue
		}
		if ok, _ := (core.PathQuery{Fn: fn, From: nil, To: r, CutEdges: map[core.Edge]bool{arm: true}}).Exists(); ok {
			continue // reachable without the shutdown arm (e.g. recover block): not this rule's return
		}
		nret++
		if ok, _ := (core.PathQuery{Fn: fn, From: first, To: r, CutEdges: map[core.Edge]bool{defEdge: true}}).Exists(); ok || arm.To == r.Block() && !core.Reachable(fn, first, drain) {
			msgs = append(msgs, fmt.Sprintf("%s: the loop can return after shutdown without having found the request queue empty", p.Pos(r.Pos())))
		}
		// (3) flush: from the default edge to the return: pass sendItems or the false arm of count>0
		cut := map[core.Edge]bool{}
		for _, b := range fn.Blocks {
			iff := core.IfOf(b)
			if iff == nil {
				continue
			}
			if cmp, ok := iff.Cond.(*ssa.BinOp); ok && cmp.Op == token.GTR {
				if k, isC := core.ConstInt(cmp.Y); isC && k == 0 && core.DerivesFrom(cmp.X, func(v ssa.Value) bool {
					cl, ok := v.(*ssa.Call)
					return ok && cl.Call.IsInvoke() && cl.Call.Method == a.mCount
				}) {
					cut[core.Edge{From: b, To: b.Succs[1]}] = true
				}
			}
		}
		q := core.PathQuery{Fn: fn, From: defEdge.To.Instrs[0], To: r, CutEdges: cut, Avoid: isFlush}
		if defEdge.To.Instrs[0] == ssa.Instruction(r) {
			msgs = append(msgs, fmt.Sprintf("%s: returns right after draining without flushing", p.Pos(r.Pos())))
		} else if isFlush(defEdge.To.Instrs[0]) {
			// first instruction already is the flush
		} else if ok, _ := q.Exists(); ok {
			msgs = append(msgs, fmt.Sprintf("%s: after draining, a path returns without flushing a non-empty batch (no send and no itemCount()>0 test on it)", p.Pos(r.Pos())))
		}
	}
	if nret == 0 {
		msgs = append(msgs, "the shutdown arm never returns: Shutdown would wait forever")
	}
	c.Check(len(msgs) == 0, "drain|return", p.Pos(drain.Pos()), core.FuncName(fn), "every return after shutdown follows an empty-queue observation and a flush of a non-empty batch", strings.Join(msgs, "; "))
	// (2) each drained item goes through the item handler
	handled := !func() bool {
		ok, _ := (core.PathQuery{Fn: fn, From: recvEdge.To.Instrs[0], To: drain, Avoid: func(i ssa.Instruction) bool { return isCallTo(i, m.processFn) }}).Exists()
		return ok && !isCallTo(recvEdge.To.Instrs[0], m.processFn)
	}()
	// and no return on the receive arm before handling
	if ok, _ := (core.PathQuery{Fn: fn, From: recvEdge.To.Instrs[0], To: nil, Avoid: func(i ssa.Instruction) bool { return isCallTo(i, m.processFn) }, CutEdges: map[core.Edge]bool{}}).Exists(); ok && !isCallTo(recvEdge.To.Instrs[0], m.processFn) {
		// a path from the receive arm to an exit without handling
		handled = false
	}
	c.Check(handled, "drain|handle", p.Pos(drain.Pos()), core.FuncName(fn), "every request drained on shutdown is passed to the item handler", "a request received while draining on shutdown can bypass the item handler: its items are lost")
}

func c05_7(c *core.Ctx, p *core.Prog) {
	a := newCBPAnchors(p)
	if !a.ok(c) {
		return
	}
	m := a.more()
	if !m.ok(c) {
		return
	}
	fn := m.loopFn
	k := -1
	for i, s := range m.mainSelect.States {
		if fa := core.LoadedField(s.Chan); fa != nil && core.FieldVar(fa) == m.itemChanField && s.Dir == types.RecvOnly {
			k = i
		}
	}
	arm, ok := selectArm(m.mainSelect, k)
	if k < 0 || !ok {
		c.Undecided("item-arm", p.Pos(m.mainSelect.Pos()), core.FuncName(fn), "item arm of the shard loop's select not recognised")
		return
	}
	// cut edges: the `data == nil` true edge
	cut := map[core.Edge]bool{}
	for _, b := range fn.Blocks {
		iff := core.IfOf(b)
		if iff == nil {
			continue
		}
		cmp, ok := iff.Cond.(*ssa.BinOp)
		if !ok || (cmp.Op != token.EQL && cmp.Op != token.NEQ) || !core.IsNilConst(cmp.Y) || !isAny(cmp.X.Type()) {
			continue
		}
		if cmp.Op == token.EQL {
			cut[core.Edge{From: b, To: b.Succs[0]}] = true
		} else {
			cut[core.Edge{From: b, To: b.Succs[1]}] = true
		}
	}
	first := arm.To.Instrs[0]
	handles := func(i ssa.Instruction) bool { return handlesItem(m, i) }
	bad := false
	if !handles(first) {
		if ok, _ := (core.PathQuery{Fn: fn, From: first, To: m.mainSelect, Avoid: handles, CutEdges: cut}).Exists(); ok {
			bad = true
		}
		if ok, _ := (core.PathQuery{Fn: fn, From: first, To: nil, Avoid: handles, CutEdges: cut}).Exists(); ok {
			bad = true
		}
	}
	c.Check(!bad, "item-arm", p.Pos(first.Pos()), core.FuncName(fn), "every request received from the queue reaches the item handler unless it carries no data", "a request received from the queue can be dropped without reaching the item handler although it carries data")
	// inside the item handler: every path to a return adds the request's data to the batch (unless it carries none)
	pf := m.processFn
	isAdd := func(i ssa.Instruction) bool {
		ci, ok := i.(ssa.CallInstruction)
		return ok && ci.Common().IsInvoke() && ci.Common().Method == a.mAdd
	}
	cut2 := map[core.Edge]bool{}
	for _, b := range pf.Blocks {
		iff := core.IfOf(b)
		if iff == nil {
			continue
		}
		cmp, ok := iff.Cond.(*ssa.BinOp)
		if !ok || (cmp.Op != token.EQL && cmp.Op != token.NEQ) || !core.IsNilConst(cmp.Y) || !isAny(cmp.X.Type()) {
			continue
		}
		if cmp.Op == token.EQL {
			cut2[core.Edge{From: b, To: b.Succs[0]}] = true
		} else {
			cut2[core.Edge{From: b, To: b.Succs[1]}] = true
		}
	}
	// every item that is added to the batch is followed by the flush test — in the main arm and in the shutdown drain
	// alike: one send passes on at most send_batch_max_size items, so a drain that only collects what is queued and
	// sends once afterwards drops the rest of what was accepted
	{
		flushFns := map[*ssa.Function]bool{}
		for _, g := range cbpFuncs(c, p) {
			if g == fn || nonEmptyFlushHelper(a, g) {
				continue
			}
			g := g
			core.EachInstr(g, func(i ssa.Instruction) {
				if isCallTo(i, a.sendFn) {
					flushFns[g] = true
				}
			})
		}
		var mustFlush func(h *ssa.Function, d int) bool
		mustFlush = func(h *ssa.Function, d int) bool {
			if h == nil || len(h.Blocks) == 0 || d > 2 {
				return false
			}
			if flushFns[h] {
				return true
			}
			miss, _ := (core.PathQuery{Fn: h, ExitReturnOnly: true, Avoid: func(j ssa.Instruction) bool {
				cl, ok := j.(*ssa.Call)
				if !ok {
					return false
				}
				g := cl.Call.StaticCallee()
				return g != nil && g != h && (flushFns[g] || (core.FnPkgPath(g) == core.CBPPath && mustFlush(g, d+1)))
			}}).Exists()
			return !miss
		}
		nH := 0
		core.EachInstr(fn, func(i ssa.Instruction) {
			if !handlesItem(m, i) {
				return
			}
			nH++
			cl, _ := i.(*ssa.Call)
			okF := false
			if cl != nil {
				okF = mustFlush(cl.Call.StaticCallee(), 0)
			}
			if !okF {
				// the flush test may follow in the loop function itself, before the next receive
				isFlush := func(j ssa.Instruction) bool {
					c2, ok := j.(*ssa.Call)
					return ok && c2.Call.StaticCallee() != nil && flushFns[c2.Call.StaticCallee()]
				}
				if skip, _ := (core.PathQuery{Fn: fn, From: i, To: m.mainSelect, Avoid: isFlush}).Exists(); !skip {
					if skip2, _ := (core.PathQuery{Fn: fn, From: i, ExitReturnOnly: true, Avoid: isFlush}).Exists(); !skip2 {
						okF = true
					}
				}
			}
			c.Check(okF, fmt.Sprintf("item-arm|flush#%d", nH), p.Pos(i.Pos()), core.FuncName(fn), "an item added to the batch is followed by the flush test",
				"a request taken from the queue is added to the batch without the flush test that follows every other arrival (e.g. in the shutdown drain, 'it is sent below'): the single send that follows passes on at most send_batch_max_size items, so with more than that queued at shutdown the rest of what was accepted is dropped")
		})
	}
	skips, _ := (core.PathQuery{Fn: pf, Avoid: isAdd, CutEdges: cut2, ExitReturnOnly: true}).Exists()
	c.Check(!skips, "handler|adds", p.Pos(pf.Pos()), core.FuncName(pf), "the item handler adds every request's data to the batch",
		"the item handler can return without adding the request's data to the batch (e.g. when the caller's context has already ended): with early_return the caller was told success when it enqueued, so an accepted request is dropped — also by the shutdown drain")
}

// ---------------- C05.10 ----------------

const c05_10Canary = `package c

import "go.opentelemetry.io/collector/pdata/ptrace"

// BadStale hoists the remaining capacity out of the callback that updates the counter.
func BadStale(size int, src ptrace.ResourceSpans, dst ptrace.ScopeSpansSlice) {
	total := 0
	remaining := size - total
	src.ScopeSpans().RemoveIf(func(ss ptrace.ScopeSpans) bool {
		n := ss.Spans().Len()
		if remaining >= n {
			total += n
			ss.MoveTo(dst.AppendEmpty())
			return true
		}
		return false
	})
}

func GoodLive(size int, src ptrace.ResourceSpans, dst ptrace.ScopeSpansSlice) {
	total := 0
	src.ScopeSpans().RemoveIf(func(ss ptrace.ScopeSpans) bool {
		n := ss.Spans().Len()
		if size-total >= n {
			total += n
			ss.MoveTo(dst.AppendEmpty())
			return true
		}
		return false
	})
}
`

// c05_10: inside a RemoveIf callback (invoked once per element), a branch
// condition must not read a captured variable W whose stored value derives
// from another captured variable V that the callback (or a nested callback)
// modifies, unless the callback itself re-assigns W before reading it.
func c05_10(c *core.Ctx, p *core.Prog) {
	for _, cb := range removeIfCallbacks(cbpFuncs(c, p)) {
		clo := cb.clo
		if clo == nil {
			continue
		}
		key := "callback=" + core.FuncName(clo)
		pos := p.Pos(cb.call.Pos())
		// cells written during an invocation of clo (directly or in nested closures)
		written := map[ssa.Value]bool{} // canonical cell (Alloc in some enclosing fn)
		var collect func(f *ssa.Function)
		collect = func(f *ssa.Function) {
			core.EachInstr(f, func(i ssa.Instruction) {
				if st, ok := i.(*ssa.Store); ok {
					if cell := cellOf(st.Addr); cell != nil {
						written[cell] = true
					}
				}
			})
			for _, an := range f.AnonFuncs {
				collect(an)
			}
		}
		collect(clo)
		var stale []string
		core.EachInstr(clo, func(i ssa.Instruction) {
			iff, ok := i.(*ssa.If)
			if !ok {
				return
			}
			core.BackSlice(iff.Cond, func(v ssa.Value) bool {
				u, ok := v.(*ssa.UnOp)
				if !ok || u.Op != token.MUL {
					return true
				}
				fv, ok := u.X.(*ssa.FreeVar)
				if !ok {
					return true
				}
				w := cellOf(fv)
				if w == nil || written[w] {
					return false // live counter itself, or re-assigned here
				}
				// does some store to w (outside clo) derive from a cell written in clo?
				al, ok := w.(*ssa.Alloc)
				if !ok {
					return false
				}
				for _, r := range core.Referrers(al) {
					st, ok := r.(*ssa.Store)
					if !ok || st.Addr != ssa.Value(al) {
						continue
					}
					if core.DerivesFrom(st.Val, func(x ssa.Value) bool {
						l, ok := x.(*ssa.UnOp)
						if !ok || l.Op != token.MUL {
							return false
						}
						cell := cellOf(l.X)
						return cell != nil && cell != w && written[cell]
					}) {
						stale = append(stale, fmt.Sprintf("%s: condition reads captured %q, computed at %s from a counter that this callback updates; it is not recomputed per element", p.Pos(iff.Cond.Pos()), al.Comment, p.Pos(st.Pos())))
					}
				}
				return false
			})
		})
		c.Check(len(stale) == 0, key, pos, core.FuncName(clo), "branch conditions read only live state", "capacity test uses a stale value: "+strings.Join(stale, "; ")+" — later elements are admitted against an out-of-date capacity, so a split can exceed the requested size")
	}
}

// cellOf resolves an address to the Alloc it denotes through closure bindings.
func cellOf(addr ssa.Value) ssa.Value {
	switch x := addr.(type) {
	case *ssa.Alloc:
		return x
	case *ssa.FreeVar:
		fn := x.Parent()
		if fn == nil || fn.Parent() == nil {
			return nil
		}
		idx := -1
		for i, f := range fn.FreeVars {
			if f == x {
				idx = i
			}
		}
		var res ssa.Value
		core.EachInstr(fn.Parent(), func(i ssa.Instruction) {
			if mc, ok := i.(*ssa.MakeClosure); ok && mc.Fn == ssa.Value(fn) && idx >= 0 && idx < len(mc.Bindings) {
				res = mc.Bindings[idx]
			}
		})
		if res == nil {
			return nil
		}
		return cellOf(res)
	}
	return nil
}
