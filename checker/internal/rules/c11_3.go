package rules

import (
	"fmt"
	"go/token"
	"go/types"
	"sort"
	"strings"

	"golang.org/x/tools/go/ssa"

	"otelcheck/internal/core"
)

// Engine C (DESIGN 2.3): goroutine roots, package-local call graph, per-field
// access map with must-held locksets.

type fieldAccess struct {
	field *types.Var
	owner *types.Named
	write bool
	ins   ssa.Instruction
	fn    *ssa.Function
	local bool // base object allocated in this very function (construction)
}

type concModel struct {
	p      *core.Prog
	fns    []*ssa.Function
	inPkg  map[*ssa.Function]bool
	edges  map[*ssa.Function][]*ssa.Function
	callAt map[*ssa.Function][]ssa.CallInstruction // in-package call sites of callee
	roots  map[string][]*ssa.Function
	reach  map[string]map[*ssa.Function]bool
}

func isSyncType(t types.Type) bool {
	pp := core.TypePkgPath(t)
	return pp == "sync" || pp == "sync/atomic" || pp == "golang.org/x/sync/semaphore"
}

func buildConcModel(c *core.Ctx, p *core.Prog, a *cbpAnchors, m *cbpMore) *concModel {
	cm := &concModel{p: p, inPkg: map[*ssa.Function]bool{}, edges: map[*ssa.Function][]*ssa.Function{}, callAt: map[*ssa.Function][]ssa.CallInstruction{},
		roots: map[string][]*ssa.Function{}, reach: map[string]map[*ssa.Function]bool{}}
	cm.fns = p.FuncsIn(func(pp string) bool { return pp == core.CBPPath })
	for _, f := range cm.fns {
		cm.inPkg[f] = true
	}
	// interface methods declared in the package → implementations in the package
	impls := func(mth *types.Func) []*ssa.Function {
		var out []*ssa.Function
		recvI, _ := mth.Type().(*types.Signature).Recv().Type().Underlying().(*types.Interface)
		if recvI == nil {
			return nil
		}
		scope := a.pkg.Pkg.Scope()
		for _, name := range scope.Names() {
			tn, ok := scope.Lookup(name).(*types.TypeName)
			if !ok {
				continue
			}
			for _, t := range []types.Type{tn.Type(), types.NewPointer(tn.Type())} {
				if _, isI := tn.Type().Underlying().(*types.Interface); isI {
					continue
				}
				if !types.Implements(t, recvI) {
					continue
				}
				if sel := p.SSA.MethodSets.MethodSet(t).Lookup(mth.Pkg(), mth.Name()); sel != nil {
					if f := p.SSA.MethodValue(sel); f != nil {
						// unwrap promoted / pointer wrappers to the declared method
						for f.Synthetic != "" && len(f.Blocks) > 0 {
							var inner *ssa.Function
							core.EachCall(f, func(ci ssa.CallInstruction) {
								if sc := ci.Common().StaticCallee(); sc != nil && sc.Name() == f.Name() {
									inner = sc
								}
							})
							if inner == nil {
								break
							}
							f = inner
						}
						out = append(out, f)
					}
				}
				break
			}
		}
		return out
	}
	addrTaken := map[*ssa.Function]bool{}
	for _, f := range cm.fns {
		core.EachInstr(f, func(i ssa.Instruction) {
			for _, op := range i.Operands(nil) {
				if op == nil || *op == nil {
					continue
				}
				switch v := (*op).(type) {
				case *ssa.MakeClosure:
					if t, ok := v.Fn.(*ssa.Function); ok {
						addrTaken[t] = true
					}
				case *ssa.Function:
					if ci, ok := i.(ssa.CallInstruction); ok && ci.Common().Value == ssa.Value(v) {
						continue
					}
					addrTaken[v] = true
				}
			}
		})
	}
	for _, f := range cm.fns {
		core.EachInstr(f, func(i ssa.Instruction) {
			if _, isGo := i.(*ssa.Go); isGo {
				return
			}
			ci, ok := i.(ssa.CallInstruction)
			if !ok {
				return
			}
			cc := ci.Common()
			var tgts []*ssa.Function
			switch {
			case cc.StaticCallee() != nil:
				tgts = append(tgts, cc.StaticCallee())
			case cc.IsInvoke():
				if cc.Method.Pkg() != nil && cc.Method.Pkg().Path() == core.CBPPath {
					tgts = append(tgts, impls(cc.Method)...)
				}
			default:
				// dynamic call of a func value: every address-taken package function of identical signature
				for t := range addrTaken {
					if cm.inPkg[t] && types.Identical(t.Signature, cc.Signature()) {
						tgts = append(tgts, t)
					}
				}
			}
			for _, t := range tgts {
				if cm.inPkg[t] {
					cm.edges[f] = append(cm.edges[f], t)
					cm.callAt[t] = append(cm.callAt[t], ci)
				}
			}
			// closures handed to library calls run in the caller's goroutine
			for _, arg := range cc.Args {
				if mc, ok := arg.(*ssa.MakeClosure); ok {
					if t, ok := mc.Fn.(*ssa.Function); ok && cm.inPkg[t] {
						if cc.StaticCallee() == nil || !cm.inPkg[cc.StaticCallee()] {
							cm.edges[f] = append(cm.edges[f], t)
						}
					}
				}
			}
		})
	}
	// roots
	for _, f := range cm.fns {
		if f.Signature.Recv() != nil && f.Object() != nil && f.Object().Exported() && f.Parent() == nil {
			n := core.NamedOf(f.Signature.Recv().Type())
			if n != nil && m.procType != nil && n.Obj() == m.procType.Obj() {
				switch f.Name() {
				case "Start":
					cm.roots["start"] = append(cm.roots["start"], f)
				case "Shutdown":
					cm.roots["shutdown"] = append(cm.roots["shutdown"], f)
				case "Capabilities":
				default:
					cm.roots["caller"] = append(cm.roots["caller"], f)
				}
			}
		}
		core.EachInstr(f, func(i ssa.Instruction) {
			g, ok := i.(*ssa.Go)
			if !ok {
				return
			}
			var t *ssa.Function
			if mc, ok := g.Call.Value.(*ssa.MakeClosure); ok {
				t, _ = mc.Fn.(*ssa.Function)
			} else {
				t = g.Call.StaticCallee()
			}
			if t == nil {
				return
			}
			if t == m.loopFn {
				cm.roots["loop"] = append(cm.roots["loop"], t)
			} else {
				cm.roots["go:"+core.FuncName(t)] = append(cm.roots["go:"+core.FuncName(t)], t)
			}
		})
		// callbacks registered with libraries: closures passed to non-package calls whose
		// signature takes an observer (metric callbacks)
		core.EachCall(f, func(ci ssa.CallInstruction) {
			cc := ci.Common()
			if cc.StaticCallee() != nil && cm.inPkg[cc.StaticCallee()] {
				return
			}
			if f := core.CalleeObj(ci); f == nil || !strings.HasPrefix(f.Name(), "Register") {
				return
			}
			for _, arg := range cc.Args {
				if mc, ok := arg.(*ssa.MakeClosure); ok {
					if t, ok := mc.Fn.(*ssa.Function); ok && cm.inPkg[t] {
						cm.roots["callback"] = append(cm.roots["callback"], t)
					}
				}
			}
		})
	}
	// bound method values handed out (bp.batcher.currentMetadataCardinality) reach the callback
	for _, f := range cm.fns {
		if strings.HasSuffix(f.Name(), "$bound") {
			continue
		}
	}
	for fn := range p.AllFns {
		if fn.Synthetic != "" && strings.HasPrefix(fn.Synthetic, "bound method wrapper") && core.FnPkgPath(fn) == core.CBPPath {
			core.EachCall(fn, func(ci ssa.CallInstruction) {
				cc := ci.Common()
				if cc.IsInvoke() && cc.Method.Pkg() != nil && cc.Method.Pkg().Path() == core.CBPPath {
					cm.roots["callback"] = append(cm.roots["callback"], impls(cc.Method)...)
				} else if sc := cc.StaticCallee(); sc != nil && cm.inPkg[sc] {
					cm.roots["callback"] = append(cm.roots["callback"], sc)
				}
			})
		}
	}
	for name, rs := range cm.roots {
		seen := map[*ssa.Function]bool{}
		var walk func(f *ssa.Function)
		walk = func(f *ssa.Function) {
			if seen[f] {
				return
			}
			seen[f] = true
			for _, t := range cm.edges[f] {
				walk(t)
			}
		}
		for _, r := range rs {
			walk(r)
		}
		cm.reach[name] = seen
	}
	return cm
}

// rootsOf lists the roots that reach fn.
func (cm *concModel) rootsOf(fn *ssa.Function) []string {
	var out []string
	for name, set := range cm.reach {
		if set[fn] {
			out = append(out, name)
		}
	}
	sort.Strings(out)
	return out
}

// accesses enumerates field accesses of package structs in fn.
func (cm *concModel) accesses(fn *ssa.Function) []fieldAccess {
	var out []fieldAccess
	isPkgStruct := func(t types.Type) *types.Named {
		pt, ok := t.Underlying().(*types.Pointer)
		if !ok {
			return nil
		}
		n, ok := pt.Elem().(*types.Named)
		if !ok || n.Obj().Pkg() == nil || n.Obj().Pkg().Path() != core.CBPPath {
			return nil
		}
		if _, ok := n.Underlying().(*types.Struct); !ok {
			return nil
		}
		return n
	}
	// is the base object local to this function (fresh allocation / by-value copy)?
	var localBase func(v ssa.Value, depth int) bool
	localBase = func(v ssa.Value, depth int) bool {
		if depth > 6 {
			return false
		}
		switch x := v.(type) {
		case *ssa.Alloc:
			// a heap cell captured by closures that holds a *pointer* is not the object itself
			return true
		case *ssa.FieldAddr:
			return localBase(x.X, depth+1)
		case *ssa.IndexAddr:
			return localBase(x.X, depth+1)
		}
		return false
	}
	core.EachInstr(fn, func(i ssa.Instruction) {
		fa, ok := i.(*ssa.FieldAddr)
		if !ok {
			return
		}
		owner := isPkgStruct(fa.X.Type())
		if owner == nil {
			return
		}
		// outermost field only: skip FieldAddr whose base is itself a FieldAddr of a package struct value (embedded)
		if inner, ok := fa.X.(*ssa.FieldAddr); ok && isPkgStruct(inner.X.Type()) != nil {
			// attribute to the outer field: handled when visiting `inner`
			return
		}
		if _, isElem := fa.X.(*ssa.IndexAddr); isElem {
			// element of a slice: attributed to the field holding the slice (write-through below)
			return
		}
		fv := core.FieldVar(fa)
		if isSyncType(fv.Type()) {
			return
		}
		local := localBase(fa.X, 0)
		// classify uses, following nested addressing
		var visit func(addr ssa.Value, depth int)
		visit = func(addr ssa.Value, depth int) {
			for _, r := range core.Referrers(addr) {
				switch y := r.(type) {
				case *ssa.Store:
					if y.Addr == addr {
						out = append(out, fieldAccess{fv, owner, true, y, fn, local})
					}
				case *ssa.UnOp:
					if y.Op == token.MUL {
						out = append(out, fieldAccess{fv, owner, false, y, fn, local})
						// writes through a loaded slice / map header
						if depth == 0 {
							switch y.Type().Underlying().(type) {
							case *types.Slice:
								for _, r2 := range core.Referrers(y) {
									if ia, ok := r2.(*ssa.IndexAddr); ok {
										var through func(ad ssa.Value, d int)
										through = func(ad ssa.Value, d int) {
											for _, r3 := range core.Referrers(ad) {
												switch z := r3.(type) {
												case *ssa.Store:
													if z.Addr == ad {
														out = append(out, fieldAccess{fv, owner, true, z, fn, local})
													}
												case *ssa.FieldAddr:
													if d < 4 {
														through(z, d+1)
													}
												}
											}
										}
										through(ia, 0)
									}
								}
							case *types.Map:
								for _, r2 := range core.Referrers(y) {
									if mu, ok := r2.(*ssa.MapUpdate); ok && mu.Map == ssa.Value(y) {
										out = append(out, fieldAccess{fv, owner, true, mu, fn, local})
									}
								}
							}
							// mutating pdata methods on a loaded pdata value
							if isPdataType(y.Type()) {
								for _, r2 := range core.Referrers(y) {
									if cl, ok := r2.(*ssa.Call); ok {
										if f := pdataCallee(cl); f != nil {
											out = append(out, fieldAccess{fv, owner, false, cl, fn, local})
										}
									}
								}
							}
						}
					}
				case *ssa.FieldAddr:
					if depth < 4 {
						visit(y, depth+1)
					}
				case *ssa.IndexAddr:
					if depth < 4 {
						visit(y, depth+1)
					}
				}
			}
		}
		visit(fa, 0)
	})
	return out
}

// entryLocks computes, per function, the set of mutex fields held on entry at
// every in-package call site (intersection), to a fixpoint; roots start empty.
func (cm *concModel) entryLocks(lockFields []*types.Var) map[*ssa.Function]map[*types.Var]bool {
	held := map[*ssa.Function]map[*types.Var]map[ssa.Instruction]bool{}
	heldIn := func(f *ssa.Function, lf *types.Var) map[ssa.Instruction]bool {
		if held[f] == nil {
			held[f] = map[*types.Var]map[ssa.Instruction]bool{}
		}
		if held[f][lf] == nil {
			held[f][lf] = heldAt(f, func(v ssa.Value) bool {
				fa, ok := v.(*ssa.FieldAddr)
				return ok && core.FieldVar(fa) == lf
			})
		}
		return held[f][lf]
	}
	entry := map[*ssa.Function]map[*types.Var]bool{}
	isRoot := map[*ssa.Function]bool{}
	for _, rs := range cm.roots {
		for _, r := range rs {
			isRoot[r] = true
		}
	}
	for _, f := range cm.fns {
		entry[f] = map[*types.Var]bool{}
		if !isRoot[f] && len(cm.callAt[f]) > 0 {
			for _, lf := range lockFields {
				entry[f][lf] = true // optimistic
			}
		}
	}
	for changed := true; changed; {
		changed = false
		for _, f := range cm.fns {
			if isRoot[f] || len(cm.callAt[f]) == 0 {
				continue
			}
			for _, lf := range lockFields {
				if !entry[f][lf] {
					continue
				}
				all := true
				for _, site := range cm.callAt[f] {
					caller := site.Parent()
					h := heldIn(caller, lf)[site] || entry[caller][lf]
					if !h {
						all = false
					}
				}
				if !all {
					entry[f][lf] = false
					changed = true
				}
			}
		}
	}
	return entry
}

func c11_3(c *core.Ctx, p *core.Prog) {
	a := newCBPAnchors(p)
	if !a.ok(c) {
		return
	}
	m := a.more()
	if !m.ok(c) {
		return
	}
	cm := buildConcModel(c, p, a, m)
	for _, need := range []string{"caller", "loop", "shutdown", "start"} {
		if len(cm.roots[need]) == 0 {
			c.Undecided("roots", "?", "", "goroutine root '"+need+"' not resolved")
			return
		}
	}
	var rootNames []string
	for n, rs := range cm.roots {
		rootNames = append(rootNames, fmt.Sprintf("%s(%d fns reach %d)", n, len(rs), len(cm.reach[n])))
	}
	sort.Strings(rootNames)
	c.Note("C11.3 goroutine roots: %s", strings.Join(rootNames, "; "))
	// lock fields of package structs
	var lockFields []*types.Var
	scope := a.pkg.Pkg.Scope()
	for _, name := range scope.Names() {
		if tn, ok := scope.Lookup(name).(*types.TypeName); ok {
			if st, ok := tn.Type().Underlying().(*types.Struct); ok {
				for i := 0; i < st.NumFields(); i++ {
					if core.TypePkgPath(st.Field(i).Type()) == "sync" && strings.HasSuffix(core.TypeName(st.Field(i).Type()), "Mutex") {
						lockFields = append(lockFields, st.Field(i))
					}
				}
			}
		}
	}
	entry := cm.entryLocks(lockFields)
	type rec struct {
		acc   fieldAccess
		roots []string
		locks map[*types.Var]bool
	}
	byField := map[*types.Var][]rec{}
	owners := map[*types.Var]*types.Named{}
	heldCache := map[*ssa.Function]map[*types.Var]map[ssa.Instruction]bool{}
	for _, f := range cm.fns {
		roots := cm.rootsOf(f)
		for _, ac := range cm.accesses(f) {
			locks := map[*types.Var]bool{}
			for _, lf := range lockFields {
				if heldCache[f] == nil {
					heldCache[f] = map[*types.Var]map[ssa.Instruction]bool{}
				}
				if heldCache[f][lf] == nil {
					lf := lf
					heldCache[f][lf] = heldAt(f, func(v ssa.Value) bool {
						fa, ok := v.(*ssa.FieldAddr)
						return ok && core.FieldVar(fa) == lf
					})
				}
				if heldCache[f][lf][ac.ins] || entry[f][lf] {
					locks[lf] = true
				}
			}
			byField[ac.field] = append(byField[ac.field], rec{ac, roots, locks})
			owners[ac.field] = ac.owner
		}
	}
	var fields []*types.Var
	for f := range byField {
		fields = append(fields, f)
	}
	sort.Slice(fields, func(i, j int) bool {
		return owners[fields[i]].Obj().Name()+"."+fields[i].Name() < owners[fields[j]].Obj().Name()+"."+fields[j].Name()
	})
	// which owner types belong to exactly one shard goroutine: the shard and its batch implementations
	shardOwned := map[*types.TypeName]bool{a.shard.Obj(): true}
	for _, bi := range a.batchImpls {
		shardOwned[bi.Obj()] = true
	}
	for _, f := range fields {
		recs := byField[f]
		owner := owners[f]
		key := "field=" + owner.Obj().Name() + "." + f.Name()
		// post-construction accesses: not local-base, and in a function reached by a concurrent root
		var live []rec
		for _, r := range recs {
			if r.acc.local {
				continue
			}
			conc := false
			for _, rt := range r.roots {
				if rt != "start" {
					conc = true
				}
			}
			if conc {
				live = append(live, r)
			}
		}
		var writes []rec
		for _, r := range live {
			if r.acc.write {
				writes = append(writes, r)
			}
		}
		pos := p.Pos(f.Pos())
		if len(writes) == 0 {
			c.OK(key, pos, owner.Obj().Name(), fmt.Sprintf("never written after construction/Start (%d concurrent reads)", len(live)))
			continue
		}
		// confined to the shard loop?
		confined := shardOwned[owner.Obj()]
		var offender *rec
		for i, r := range live {
			for _, rt := range r.roots {
				if rt != "loop" && rt != "start" {
					confined = false
					if offender == nil {
						offender = &live[i]
					}
				}
			}
		}
		if confined {
			c.OK(key, pos, owner.Obj().Name(), fmt.Sprintf("written after construction but every access (%d) is reached only from the shard's own loop goroutine", len(live)))
			continue
		}
		// common lock?
		common := map[*types.Var]bool{}
		for _, lf := range lockFields {
			common[lf] = true
		}
		var unlocked *rec
		for i, r := range live {
			any := false
			for lf := range common {
				if !r.locks[lf] {
					delete(common, lf)
				} else {
					any = true
				}
			}
			if !any && unlocked == nil {
				unlocked = &live[i]
			}
		}
		if len(common) > 0 {
			var ln []string
			for lf := range common {
				ln = append(ln, lf.Name())
			}
			c.OK(key, pos, owner.Obj().Name(), fmt.Sprintf("all %d post-construction accesses hold mutex %s", len(live), strings.Join(ln, ",")))
			continue
		}
		w := writes[0]
		other := unlocked
		if other == nil {
			other = offender
		}
		if other == nil {
			other = &live[0]
		}
		c.Viol(key, p.Pos(w.acc.ins.Pos()), core.FuncName(w.acc.fn),
			fmt.Sprintf("field %s.%s is written at %s (goroutine roots %v) and accessed at %s in %s (roots %v) with no common mutex and not confined to the shard's loop goroutine: data race",
				owner.Obj().Name(), f.Name(), p.Pos(w.acc.ins.Pos()), w.roots, p.Pos(other.acc.ins.Pos()), core.FuncName(other.acc.fn), other.roots))
	}
	// captured cells shared between the spawner and the export goroutine: no store after the go statement, none inside the goroutine
	if a.goInstr != nil {
		if mc, ok := a.goInstr.Call.Value.(*ssa.MakeClosure); ok {
			for k, b := range mc.Bindings {
				al, ok := b.(*ssa.Alloc)
				if !ok {
					continue
				}
				key := "captured=" + al.Comment
				bad := ""
				for _, r := range core.Referrers(al) {
					if s, ok := r.(*ssa.Store); ok && s.Addr == ssa.Value(al) && core.Reachable(a.sendFn, a.goInstr, s) {
						bad = fmt.Sprintf("variable %q captured by the export goroutine is written at %s after the go statement", al.Comment, p.Pos(s.Pos()))
					}
				}
				if k < len(a.exportFn.FreeVars) {
					fv := a.exportFn.FreeVars[k]
					for _, r := range core.Referrers(fv) {
						if s, ok := r.(*ssa.Store); ok && s.Addr == ssa.Value(fv) {
							// written inside the goroutine: only a race if the spawner reads it after the go
							for _, r2 := range core.Referrers(al) {
								if ins, ok := r2.(ssa.Instruction); ok && ins != ssa.Instruction(mc) && core.Reachable(a.sendFn, a.goInstr, ins) {
									bad = fmt.Sprintf("variable %q is written inside the export goroutine (%s) and used by the spawner after the go statement", al.Comment, p.Pos(s.Pos()))
								}
							}
						}
					}
				}
				c.Check(bad == "", key, p.Pos(al.Pos()), core.FuncName(a.sendFn), "captured variable is not written after the go statement", bad+": data race between the shard loop and the export goroutine")
			}
		}
	}
}
