package rules

import (
	"fmt"
	"strings"

	"golang.org/x/tools/go/ssa"

	"otelcheck/internal/core"
)

// C17.12 — a value is not emptied before it is read.
//
// `v.SetEmptyBytes().FromRaw(enc(string(v.Bytes().AsRaw())))` reads left to right: the value is
// emptied first, the cipher is then applied to nothing, and a byte string becomes an empty one —
// length, injectivity and agreement with the same bytes elsewhere are all gone. The shape is
// harmless when the emptied value is a fresh element of a copy (the rebuild idiom of this
// processor) and wrong as soon as it is the source itself (an in-place rewrite).
//
// Rule: in every function of the processor, after a pdata `SetEmpty*` call on a value there is no
// read accessor call (Bytes, Str, Slice, Map, AsRaw, AsString, Int, Double, Bool) on that same
// value.
func c17_12(c *core.Ctx, p *core.Prog) {
	n := 0
	readers := map[string]bool{"Bytes": true, "Str": true, "Slice": true, "Map": true, "AsRaw": true, "AsString": true, "Int": true, "Double": true, "Bool": true}
	for _, top := range obfFuncs(c, p) {
		for _, fn := range core.WithClosures(top) {
			core.EachInstr(fn, func(i ssa.Instruction) {
				cl, ok := i.(*ssa.Call)
				if !ok {
					return
				}
				f := pdataCallee(cl)
				if f == nil || !strings.HasPrefix(f.Name(), "SetEmpty") || len(cl.Call.Args) == 0 {
					return
				}
				n++
				recv := cl.Call.Args[0]
				bad := ""
				core.EachInstr(fn, func(j ssa.Instruction) {
					g, ok := j.(*ssa.Call)
					if !ok || g == cl || bad != "" {
						return
					}
					gf := pdataCallee(g)
					if gf == nil || !readers[gf.Name()] || len(g.Call.Args) != 1 {
						return
					}
					r2 := g.Call.Args[0]
					if !(r2 == recv || core.SameValue(r2, recv)) {
						return
					}
					// "afterwards" within one evaluation: later in the same block, or in a block the call dominates
					// (a loop brings every call after every other one; that is not what is meant)
					after := false
					if cl.Block() == g.Block() {
						ci, gi := -1, -1
						for k, ins := range cl.Block().Instrs {
							if ins == ssa.Instruction(cl) {
								ci = k
							}
							if ins == ssa.Instruction(g) {
								gi = k
							}
						}
						after = ci >= 0 && gi > ci
					} else {
						after = cl.Block().Dominates(g.Block())
					}
					if after {
						bad = p.Pos(g.Pos())
					}
				})
				key := fmt.Sprintf("setempty#%d@%s", n, core.FuncName(fn))
				c.Check(bad == "", key, p.Pos(cl.Pos()), core.FuncName(fn), "the emptied value is not read afterwards",
					fmt.Sprintf("%s is emptied by %s and read afterwards at %s: the cipher is applied to the emptied value — a byte string inside a list comes out empty (length not preserved, every such value gets the same substitute)", valueLabel(recv), f.Name(), bad))
			})
		}
	}
}

func init() {
	register("C17", &core.Rule{ID: "C17.12", Title: "a value is not emptied (SetEmpty*) before its own content is read", Mod: core.ModObf, Floor: 1, Run: c17_12})
}
