package rules

import (
	"go/token"
	"go/types"
	"sort"
	"strings"

	"golang.org/x/tools/go/ssa"

	"otelcheck/internal/core"
)

// cbpAnchors resolves the constructs of the concurrent batch processor that
// the C05/C06/C09/C10/C11/C18 rules talk about. Anchors are found by what they
// are (signatures, interface membership, call relations); names are not used.
type cbpAnchors struct {
	p   *core.Prog
	pkg *ssa.Package

	batchIface *types.Named // interface with export/splitBatch/itemCount/add/sizeBytes
	mExport    *types.Func  // (ctx, any) error
	mSplit     *types.Func  // (ctx, int) (int, any)
	mCount     *types.Func  // () int
	mAdd       *types.Func  // (any)

	batchImpls []*types.Named // concrete types implementing batchIface

	shard *types.Named // struct with a field of type batchIface

	exportFn   *ssa.Function // closure (go target) that invokes batch.export
	sendFn     *ssa.Function // function containing the `go` that runs exportFn
	exportCall ssa.CallInstruction
	goInstr    *ssa.Go

	errs []string
}

func isCtx(t types.Type) bool {
	n := core.NamedOf(t)
	return n != nil && n.Obj().Pkg() != nil && n.Obj().Pkg().Path() == "context" && n.Obj().Name() == "Context"
}

func isAny(t types.Type) bool {
	i, ok := t.Underlying().(*types.Interface)
	return ok && i.NumMethods() == 0
}

func isErr(t types.Type) bool {
	return types.Identical(t, types.Universe.Lookup("error").Type())
}

func isInt(t types.Type) bool {
	b, ok := t.Underlying().(*types.Basic)
	return ok && b.Kind() == types.Int
}

func isBool(t types.Type) bool {
	b, ok := t.Underlying().(*types.Basic)
	return ok && b.Kind() == types.Bool
}

func sigIs(f *types.Func, params []func(types.Type) bool, results []func(types.Type) bool) bool {
	sig := f.Type().(*types.Signature)
	if sig.Params().Len() != len(params) || sig.Results().Len() != len(results) {
		return false
	}
	for i, p := range params {
		if !p(sig.Params().At(i).Type()) {
			return false
		}
	}
	for i, r := range results {
		if !r(sig.Results().At(i).Type()) {
			return false
		}
	}
	return true
}

type tp = func(types.Type) bool

func newCBPAnchors(p *core.Prog) *cbpAnchors {
	a := &cbpAnchors{p: p}
	a.pkg = p.SSAPkg(core.CBPPath)
	if a.pkg == nil {
		a.errs = append(a.errs, "package "+core.CBPPath+" not loaded")
		return a
	}
	scope := a.pkg.Pkg.Scope()
	for _, name := range scope.Names() {
		tn, ok := scope.Lookup(name).(*types.TypeName)
		if !ok {
			continue
		}
		named, ok := tn.Type().(*types.Named)
		if !ok {
			continue
		}
		it, ok := named.Underlying().(*types.Interface)
		if !ok {
			continue
		}
		var exp, spl, cnt, add *types.Func
		for i := 0; i < it.NumMethods(); i++ {
			m := it.Method(i)
			switch {
			case sigIs(m, []tp{isCtx, isAny}, []tp{isErr}) && !sigIs(m, []tp{isCtx}, []tp{isErr}):
				// two candidates have this shape on `batcher` (consume) and `batch` (export);
				// the batch interface is the one that also has the split method.
				exp = m
			case sigIs(m, []tp{isCtx, isInt}, []tp{isInt, isAny}):
				spl = m
			case sigIs(m, nil, []tp{isInt}):
				cnt = m
			case sigIs(m, []tp{isAny}, nil):
				add = m
			}
		}
		if exp != nil && spl != nil && cnt != nil && add != nil {
			if a.batchIface != nil {
				a.errs = append(a.errs, "two interfaces look like the batch interface")
			}
			a.batchIface, a.mExport, a.mSplit, a.mCount, a.mAdd = named, exp, spl, cnt, add
		}
	}
	if a.batchIface == nil {
		a.errs = append(a.errs, "no interface with export(ctx,any) error / splitBatch(ctx,int)(int,any) / itemCount() int / add(any) found")
		return a
	}
	bi := a.batchIface.Underlying().(*types.Interface)
	for _, name := range scope.Names() {
		tn, ok := scope.Lookup(name).(*types.TypeName)
		if !ok {
			continue
		}
		named, ok := tn.Type().(*types.Named)
		if !ok {
			continue
		}
		if _, isI := named.Underlying().(*types.Interface); isI {
			continue
		}
		if types.Implements(types.NewPointer(named), bi) || types.Implements(named, bi) {
			a.batchImpls = append(a.batchImpls, named)
		}
		if st, ok := named.Underlying().(*types.Struct); ok {
			for i := 0; i < st.NumFields(); i++ {
				if types.Identical(st.Field(i).Type(), a.batchIface) {
					a.shard = named
				}
			}
		}
	}
	// the export closure: the function that invokes batch.export
	for _, fn := range p.FuncsIn(func(pp string) bool { return pp == core.CBPPath }) {
		core.EachCall(fn, func(ci ssa.CallInstruction) {
			if ci.Common().IsInvoke() && ci.Common().Method == a.mExport {
				if a.exportFn != nil && a.exportFn != fn {
					a.errs = append(a.errs, "batch.export is invoked from more than one function")
				}
				a.exportFn = fn
				a.exportCall = ci
			}
		})
	}
	if a.exportFn == nil {
		a.errs = append(a.errs, "no call of the batch interface's export method found")
		return a
	}
	if par := a.exportFn.Parent(); par != nil {
		core.EachInstr(par, func(i ssa.Instruction) {
			if g, ok := i.(*ssa.Go); ok {
				if mc, ok := g.Call.Value.(*ssa.MakeClosure); ok && mc.Fn == a.exportFn {
					a.sendFn = par
					a.goInstr = g
				}
			}
		})
	}
	if a.sendFn == nil {
		// the goroutine body is a named function or method: `go b.exportBatch(…)`
		for _, fn := range p.FuncsIn(func(pp string) bool { return pp == core.CBPPath }) {
			core.EachInstr(fn, func(i ssa.Instruction) {
				if g, ok := i.(*ssa.Go); ok && g.Call.StaticCallee() == a.exportFn {
					a.sendFn = fn
					a.goInstr = g
					// the parameters of the goroutine body stand for the arguments of the go statement
					for k, prm := range a.exportFn.Params {
						if k < len(g.Call.Args) {
							core.BindParam(prm, g.Call.Args[k])
						}
					}
				}
			})
		}
	}
	if a.sendFn == nil {
		a.errs = append(a.errs, "the function invoking batch.export is not the target of a go statement")
	}
	return a
}

// apportionFn is the function that apportions a sent batch to the pending entries (it builds the
// contributor tuples): the sending function itself, or the package function it calls for that
// (`thisBatch := b.takeContributors(sent)`), bound to its call site and transparent to the slicer.
func (a *cbpAnchors) apportionFn() *ssa.Function {
	hasTupleLit := func(f *ssa.Function) bool {
		found := false
		core.EachInstr(f, func(i ssa.Instruction) {
			al, ok := i.(*ssa.Alloc)
			if !ok || found {
				return
			}
			named := core.NamedOf(al.Type())
			if named == nil || named.Obj().Pkg() == nil || named.Obj().Pkg().Path() != core.CBPPath || len(ctxFields(al.Type().(*types.Pointer).Elem())) == 0 {
				return
			}
			for _, r := range core.Referrers(al) {
				if fa, ok := r.(*ssa.FieldAddr); ok && isCtx(core.FieldVar(fa).Type()) {
					for _, r2 := range core.Referrers(fa) {
						if s, ok := r2.(*ssa.Store); ok && s.Addr == ssa.Value(fa) {
							found = true
						}
					}
				}
			}
		})
		return found
	}
	if a.sendFn == nil || hasTupleLit(a.sendFn) {
		return a.sendFn
	}
	var res *ssa.Function
	core.EachInstr(a.sendFn, func(i ssa.Instruction) {
		cl, ok := i.(*ssa.Call)
		if !ok || res != nil {
			return
		}
		h := cl.Call.StaticCallee()
		if h == nil || h.Blocks == nil || core.FnPkgPath(h) != core.CBPPath || !hasTupleLit(h) {
			return
		}
		res = h
		for k, pr := range h.Params {
			if k < len(cl.Call.Args) {
				core.BindParam(pr, cl.Call.Args[k])
			}
		}
		core.MarkTransparent(h)
	})
	if res == nil {
		return a.sendFn
	}
	return res
}

func (a *cbpAnchors) ok(c *core.Ctx) bool {
	if len(a.errs) > 0 {
		c.Undecided("anchors", "?", "", "cannot resolve batch-processor anchors: "+strings.Join(a.errs, "; "))
		return false
	}
	return true
}

// implMethod returns the SSA function implementing interface method m on impl.
func (a *cbpAnchors) implMethod(impl *types.Named, m *types.Func) *ssa.Function {
	for _, t := range []types.Type{types.NewPointer(impl), impl} {
		ms := a.p.SSA.MethodSets.MethodSet(t)
		if sel := ms.Lookup(m.Pkg(), m.Name()); sel != nil {
			return a.p.SSA.MethodValue(sel)
		}
	}
	return nil
}

// cbpFuncs lists the source functions of the batch-processor package (and the
// current rule's canary).
func cbpFuncs(c *core.Ctx, p *core.Prog) []*ssa.Function {
	return p.FuncsIn(func(pp string) bool {
		return pp == core.CBPPath || (core.IsCanaryPath(pp) && c.InScope(pp))
	})
}

// ---------- further anchors (resolved lazily) ----------

// selectStates returns the states of sel with the given direction.
func selectStates(sel *ssa.Select, dir types.ChanDir) []*ssa.SelectState {
	var out []*ssa.SelectState
	for _, s := range sel.States {
		if s.Dir == dir {
			out = append(out, s)
		}
	}
	return out
}

// selectArm returns the first block of the arm for state index k of sel
// (the block entered when the select's index result equals k), and the edge
// taken. For non-blocking selects, k == len(States) denotes the default arm.
func selectArm(sel *ssa.Select, k int) (core.Edge, bool) {
	var idx ssa.Value
	for _, r := range core.Referrers(sel) {
		if e, ok := r.(*ssa.Extract); ok && e.Index == 0 {
			idx = e
		}
	}
	if idx == nil {
		return core.Edge{}, false
	}
	// chain of `idx == j` tests
	var lastElse core.Edge
	haveElse := false
	for _, r := range core.Referrers(idx) {
		cmp, ok := r.(*ssa.BinOp)
		if !ok || cmp.Op != token.EQL {
			continue
		}
		j, ok := core.ConstInt(cmp.Y)
		if !ok {
			continue
		}
		for _, r2 := range core.Referrers(cmp) {
			iff, ok := r2.(*ssa.If)
			if !ok {
				continue
			}
			if int(j) == k {
				return core.Edge{From: iff.Block(), To: iff.Block().Succs[0]}, true
			}
			if int(j) == len(sel.States)-1 {
				lastElse = core.Edge{From: iff.Block(), To: iff.Block().Succs[1]}
				haveElse = true
			}
		}
	}
	if !sel.Blocking && k == len(sel.States) && haveElse {
		return lastElse, true
	}
	return core.Edge{}, false
}

// chanElem returns the element type if t is a channel.
func chanElem(t types.Type) types.Type {
	if ch, ok := t.Underlying().(*types.Chan); ok {
		return ch.Elem()
	}
	return nil
}

type cbpMore struct {
	itemChanField *types.Var // shard field: chan dataItem
	itemType      types.Type
	loopFn        *ssa.Function // go target receiving from the item channel
	mainSelect    *ssa.Select
	processFn     *ssa.Function // invokes batch.add
	enqueueFn     *ssa.Function // select-sends on the item channel
	enqueueSelect *ssa.Select
	enqueueSend   *ssa.Send // a bare send on the item channel (no select): the enqueue is not cancellable
	waitFn        *ssa.Function // receives the counted errors
	waitSelect    *ssa.Select
	countedErr    *types.Named
	multiConsume  *ssa.Function // uses sync.Map.LoadOrStore
	shutdownChan  *types.Var    // field closed by Shutdown
	shutdownFn    *ssa.Function
	newShardFn    *ssa.Function
	ctorFn        *ssa.Function // allocates the processor struct
	procType      *types.Named
	errs          []string
}

func (a *cbpAnchors) more() *cbpMore {
	m := &cbpMore{}
	if a.shard == nil {
		m.errs = append(m.errs, "shard struct not found")
		return m
	}
	st := core.FlatStruct(a.shard)
	procIsPtr := false
	for i := 0; i < st.NumFields(); i++ {
		f := st.Field(i)
		if el := chanElem(f.Type()); el != nil {
			if es, ok := el.Underlying().(*types.Struct); ok {
				for j := 0; j < es.NumFields(); j++ {
					if isAny(es.Field(j).Type()) {
						m.itemChanField, m.itemType = f, el
					}
				}
			}
		}
		if n := core.NamedOf(f.Type()); n != nil && n.Obj().Pkg() != nil && n.Obj().Pkg().Path() == core.CBPPath {
			if ns, isStruct := n.Underlying().(*types.Struct); isStruct {
				// the back-reference to the processor: a pointer field, and the larger struct when there are several
				// (an embedded helper struct such as a timer holder is not the processor)
				_, isPtr := f.Type().(*types.Pointer)
				better := m.procType == nil
				if !better {
					cur := m.procType.Underlying().(*types.Struct)
					better = (isPtr && !procIsPtr) || (isPtr == procIsPtr && ns.NumFields() > cur.NumFields())
				}
				if !better {
					continue
				}
				procIsPtr = isPtr
				m.procType = n
			}
		}
	}
	if m.itemChanField == nil {
		m.errs = append(m.errs, "shard has no channel field carrying request items")
		return m
	}
	isItemChan := func(v ssa.Value) bool {
		fa := core.LoadedField(v)
		return fa != nil && core.FieldVar(fa) == m.itemChanField
	}
	fns := a.p.FuncsIn(func(pp string) bool { return pp == core.CBPPath })
	for _, fn := range fns {
		core.EachInstr(fn, func(i ssa.Instruction) {
			switch x := i.(type) {
			case *ssa.Send:
				if isItemChan(x.Chan) && m.enqueueFn == nil {
					m.enqueueFn, m.enqueueSend = fn, x
				}
			case *ssa.Select:
				for _, s := range x.States {
					switch {
					case s.Dir == types.RecvOnly && isItemChan(s.Chan) && x.Blocking:
						m.loopFn, m.mainSelect = fn, x
					case s.Dir == types.SendOnly && isItemChan(s.Chan):
						m.enqueueFn, m.enqueueSelect, m.enqueueSend = fn, x, nil
					case s.Dir == types.RecvOnly && chanElem(s.Chan.Type()) != nil:
						if n := core.NamedOf(chanElem(s.Chan.Type())); n != nil && n.Obj().Pkg() != nil && n.Obj().Pkg().Path() == core.CBPPath {
							if es, ok := n.Underlying().(*types.Struct); ok && es.NumFields() == 2 {
								if _, isParam := s.Chan.(*ssa.Parameter); isParam {
									m.waitFn, m.waitSelect, m.countedErr = fn, x, n
								}
							}
						}
					}
				}
			case *ssa.Call:
				if x.Call.IsInvoke() && x.Call.Method == a.mAdd {
					m.processFn = fn
				}
				if f := core.CalleeObj(x); f != nil {
					if core.IsMethodOf(f, "sync", "Map", "LoadOrStore") {
						m.multiConsume = fn
					}
				}
				if b, ok := x.Call.Value.(*ssa.Builtin); ok && b.Name() == "close" {
					if fa := core.LoadedField(x.Call.Args[0]); fa != nil {
						m.shutdownChan = core.FieldVar(fa)
						m.shutdownFn = fn
					}
				}
			case *ssa.Alloc:
				if n, _ := x.Type().(*types.Pointer).Elem().(*types.Named); n != nil {
					if n.Obj() == a.shard.Obj() && x.Heap {
						m.newShardFn = fn
					}
					if m.procType != nil && n.Obj() == m.procType.Obj() && x.Heap {
						m.ctorFn = fn
					}
				}
			}
		})
	}
	// the shard map may sit behind a small wrapper type (its own Load / LoadOrStore methods around a sync.Map): the
	// request path is then the caller of the wrapper's method — the function of a type that also holds the admission mutex
	for hop := 0; hop < 2 && m.multiConsume != nil; hop++ {
		hasLock := false
		if m.multiConsume.Signature.Recv() != nil {
			if st := core.FlatStruct(m.multiConsume.Signature.Recv().Type()); st != nil {
				for i := 0; i < st.NumFields(); i++ {
					if core.TypePkgPath(st.Field(i).Type()) == "sync" && strings.HasSuffix(core.TypeName(st.Field(i).Type()), "Mutex") {
						hasLock = true
					}
				}
			}
		}
		if hasLock {
			break
		}
		var caller *ssa.Function
		for _, fn := range a.p.FuncsIn(func(pp string) bool { return pp == core.CBPPath }) {
			fn := fn
			core.EachCall(fn, func(ci ssa.CallInstruction) {
				if ci.Common().StaticCallee() == m.multiConsume && fn != m.multiConsume {
					caller = fn
				}
			})
		}
		if caller == nil {
			break
		}
		m.multiConsume = caller
	}
	need := map[string]bool{"shard loop": m.loopFn != nil, "item handler (calls batch.add)": m.processFn != nil, "enqueue function": m.enqueueFn != nil,
		"wait function": m.waitFn != nil, "multi-shard consume (LoadOrStore)": m.multiConsume != nil, "shutdown channel (close)": m.shutdownChan != nil,
		"shard constructor": m.newShardFn != nil, "processor constructor": m.ctorFn != nil}
	for k, ok := range need {
		if !ok {
			m.errs = append(m.errs, k+" not found")
		}
	}
	sort.Strings(m.errs)
	return m
}

func (m *cbpMore) ok(c *core.Ctx) bool {
	if len(m.errs) > 0 {
		c.Undecided("anchors", "?", "", "cannot resolve batch-processor anchors: "+strings.Join(m.errs, "; "))
		return false
	}
	return true
}

// isCallTo reports whether ins is a (non-go, non-defer) call of fn.
func isCallTo(ins ssa.Instruction, fn *ssa.Function) bool {
	c, ok := ins.(*ssa.Call)
	return ok && c.Call.StaticCallee() == fn
}

// invokes reports whether ins invokes interface method m.
func invokes(ins ssa.Instruction, m *types.Func) bool {
	c, ok := ins.(*ssa.Call)
	return ok && c.Call.IsInvoke() && c.Call.Method == m
}
