package rules

import (
	"go/types"
	"strings"

	"golang.org/x/tools/go/ssa"

	"otelcheck/internal/core"
)

// cbpAnchors resolves the constructs of the concurrent batch processor that
// the C05/C06/C09/C10/C11/C18 rules talk about. Anchors are found by what they
// are (signatures, interface membership, call relations); names are not used.
type cbpAnchors struct {
	p   *core.Prog
	pkg *ssa.Package

	batchIface *types.Named // interface with export/splitBatch/itemCount/add/sizeBytes
	mExport    *types.Func  // (ctx, any) error
	mSplit     *types.Func  // (ctx, int) (int, any)
	mCount     *types.Func  // () int
	mAdd       *types.Func  // (any)

	batchImpls []*types.Named // concrete types implementing batchIface

	shard *types.Named // struct with a field of type batchIface

	exportFn   *ssa.Function // closure (go target) that invokes batch.export
	sendFn     *ssa.Function // function containing the `go` that runs exportFn
	exportCall ssa.CallInstruction
	goInstr    *ssa.Go

	errs []string
}

func isCtx(t types.Type) bool {
	n := core.NamedOf(t)
	return n != nil && n.Obj().Pkg() != nil && n.Obj().Pkg().Path() == "context" && n.Obj().Name() == "Context"
}

func isAny(t types.Type) bool {
	i, ok := t.Underlying().(*types.Interface)
	return ok && i.NumMethods() == 0
}

func isErr(t types.Type) bool {
	return types.Identical(t, types.Universe.Lookup("error").Type())
}

func isInt(t types.Type) bool {
	b, ok := t.Underlying().(*types.Basic)
	return ok && b.Kind() == types.Int
}

func isBool(t types.Type) bool {
	b, ok := t.Underlying().(*types.Basic)
	return ok && b.Kind() == types.Bool
}

func sigIs(f *types.Func, params []func(types.Type) bool, results []func(types.Type) bool) bool {
	sig := f.Type().(*types.Signature)
	if sig.Params().Len() != len(params) || sig.Results().Len() != len(results) {
		return false
	}
	for i, p := range params {
		if !p(sig.Params().At(i).Type()) {
			return false
		}
	}
	for i, r := range results {
		if !r(sig.Results().At(i).Type()) {
			return false
		}
	}
	return true
}

type tp = func(types.Type) bool

func newCBPAnchors(p *core.Prog) *cbpAnchors {
	a := &cbpAnchors{p: p}
	a.pkg = p.SSAPkg(core.CBPPath)
	if a.pkg == nil {
		a.errs = append(a.errs, "package "+core.CBPPath+" not loaded")
		return a
	}
	scope := a.pkg.Pkg.Scope()
	for _, name := range scope.Names() {
		tn, ok := scope.Lookup(name).(*types.TypeName)
		if !ok {
			continue
		}
		named, ok := tn.Type().(*types.Named)
		if !ok {
			continue
		}
		it, ok := named.Underlying().(*types.Interface)
		if !ok {
			continue
		}
		var exp, spl, cnt, add *types.Func
		for i := 0; i < it.NumMethods(); i++ {
			m := it.Method(i)
			switch {
			case sigIs(m, []tp{isCtx, isAny}, []tp{isErr}) && !sigIs(m, []tp{isCtx}, []tp{isErr}):
				// two candidates have this shape on `batcher` (consume) and `batch` (export);
				// the batch interface is the one that also has the split method.
				exp = m
			case sigIs(m, []tp{isCtx, isInt}, []tp{isInt, isAny}):
				spl = m
			case sigIs(m, nil, []tp{isInt}):
				cnt = m
			case sigIs(m, []tp{isAny}, nil):
				add = m
			}
		}
		if exp != nil && spl != nil && cnt != nil && add != nil {
			if a.batchIface != nil {
				a.errs = append(a.errs, "two interfaces look like the batch interface")
			}
			a.batchIface, a.mExport, a.mSplit, a.mCount, a.mAdd = named, exp, spl, cnt, add
		}
	}
	if a.batchIface == nil {
		a.errs = append(a.errs, "no interface with export(ctx,any) error / splitBatch(ctx,int)(int,any) / itemCount() int / add(any) found")
		return a
	}
	bi := a.batchIface.Underlying().(*types.Interface)
	for _, name := range scope.Names() {
		tn, ok := scope.Lookup(name).(*types.TypeName)
		if !ok {
			continue
		}
		named, ok := tn.Type().(*types.Named)
		if !ok {
			continue
		}
		if _, isI := named.Underlying().(*types.Interface); isI {
			continue
		}
		if types.Implements(types.NewPointer(named), bi) || types.Implements(named, bi) {
			a.batchImpls = append(a.batchImpls, named)
		}
		if st, ok := named.Underlying().(*types.Struct); ok {
			for i := 0; i < st.NumFields(); i++ {
				if types.Identical(st.Field(i).Type(), a.batchIface) {
					a.shard = named
				}
			}
		}
	}
	// the export closure: the function that invokes batch.export
	for _, fn := range p.FuncsIn(func(pp string) bool { return pp == core.CBPPath }) {
		core.EachCall(fn, func(ci ssa.CallInstruction) {
			if ci.Common().IsInvoke() && ci.Common().Method == a.mExport {
				if a.exportFn != nil && a.exportFn != fn {
					a.errs = append(a.errs, "batch.export is invoked from more than one function")
				}
				a.exportFn = fn
				a.exportCall = ci
			}
		})
	}
	if a.exportFn == nil {
		a.errs = append(a.errs, "no call of the batch interface's export method found")
		return a
	}
	if par := a.exportFn.Parent(); par != nil {
		core.EachInstr(par, func(i ssa.Instruction) {
			if g, ok := i.(*ssa.Go); ok {
				if mc, ok := g.Call.Value.(*ssa.MakeClosure); ok && mc.Fn == a.exportFn {
					a.sendFn = par
					a.goInstr = g
				}
			}
		})
	}
	if a.sendFn == nil {
		a.errs = append(a.errs, "the function invoking batch.export is not the target of a go statement")
	}
	return a
}

func (a *cbpAnchors) ok(c *core.Ctx) bool {
	if len(a.errs) > 0 {
		c.Undecided("anchors", "?", "", "cannot resolve batch-processor anchors: "+strings.Join(a.errs, "; "))
		return false
	}
	return true
}

// implMethod returns the SSA function implementing interface method m on impl.
func (a *cbpAnchors) implMethod(impl *types.Named, m *types.Func) *ssa.Function {
	for _, t := range []types.Type{types.NewPointer(impl), impl} {
		ms := a.p.SSA.MethodSets.MethodSet(t)
		if sel := ms.Lookup(m.Pkg(), m.Name()); sel != nil {
			return a.p.SSA.MethodValue(sel)
		}
	}
	return nil
}

// cbpFuncs lists the source functions of the batch-processor package (and the
// current rule's canary).
func cbpFuncs(c *core.Ctx, p *core.Prog) []*ssa.Function {
	return p.FuncsIn(func(pp string) bool {
		return pp == core.CBPPath || (core.IsCanaryPath(pp) && c.InScope(pp))
	})
}
