package rules

import (
	"fmt"
	"go/types"
	"strings"

	"golang.org/x/tools/go/ssa"

	"otelcheck/internal/core"
)

// C07.8 retain/release balance on the consumer side. Consume retains every
// record it hands out; each signal's RelatedDataFrom releases them in a
// deferred loop. The rule: every function on the decode path that takes the
// record-message slice and defers a releasing closure releases EVERY element,
// unconditionally, and the defer is established before the function can
// return; every Consumer.*From hands the records of a successful Consume to
// such a function on every path. A record that is not released stays counted
// by the consumer's limited allocator: in-use memory grows with the length of
// the stream until every further batch is refused ("memory limit exceeded") —
// a failure no short test stream shows.

func isRecordMsgSlice(t types.Type) bool {
	sl, ok := t.Underlying().(*types.Slice)
	if !ok {
		return false
	}
	n := core.NamedOf(sl.Elem())
	return n != nil && n.Obj().Name() == "RecordMessage" && n.Obj().Pkg() != nil && n.Obj().Pkg().Path() == pkgRecordMsg
}

func c07_8(c *core.Ctx, p *core.Prog) {
	reach := repoReach(p, p.CHA(), consumerEntries(p))
	releasers := map[*ssa.Function]bool{}
	n := 0
	for _, fn := range sortedFuncs(p, reach) {
		if fn.Synthetic != "" || fn.Parent() != nil {
			continue
		}
		var recs *ssa.Parameter
		for _, pr := range fn.Params {
			if isRecordMsgSlice(pr.Type()) {
				recs = pr
			}
		}
		if recs == nil {
			continue
		}
		// deferred closures that call Release
		var deferI *ssa.Defer
		var clo *ssa.Function
		var rel *ssa.Call
		core.EachInstr(fn, func(i ssa.Instruction) {
			d, ok := i.(*ssa.Defer)
			if !ok {
				return
			}
			mc, ok := d.Call.Value.(*ssa.MakeClosure)
			if !ok {
				return
			}
			cf := mc.Fn.(*ssa.Function)
			core.EachInstr(cf, func(j ssa.Instruction) {
				if cl, ok := j.(*ssa.Call); ok && cl.Call.IsInvoke() && cl.Call.Method.Name() == "Release" {
					deferI, clo, rel = d, cf, cl
				}
			})
		})
		// plain (non-deferred) releasing helpers: releaseRecords(recs)
		if clo == nil {
			var direct *ssa.Call
			core.EachInstr(fn, func(j ssa.Instruction) {
				if cl, ok := j.(*ssa.Call); ok && cl.Call.IsInvoke() && cl.Call.Method.Name() == "Release" {
					direct = cl
				}
			})
			if direct == nil {
				continue
			}
			clo, rel = fn, direct
		}
		n++
		key := "fn=" + core.FuncName(fn)
		var msgs []string
		// (a) the loop ranges over the whole parameter
		cov := false
		core.BackSlice(rel.Call.Value, func(v ssa.Value) bool {
			acc, ok := core.ElemAccessOf(v)
			if !ok || acc.Phi == nil {
				return true
			}
			if core.Canon(acc.Base) != ssa.Value(recs) && !core.DerivesFrom(acc.Base, func(x ssa.Value) bool { return core.Canon(x) == ssa.Value(recs) }) {
				msgs = append(msgs, "the release loop ranges over another slice than the records it was given")
				return false
			}
			if ind, ok := core.InductionOf(acc.Phi); ok {
				if lo, hi, ok := ind.Coverage(acc); ok && lo <= 0 && hi >= 0 {
					cov = true
				}
			}
			return false
		})
		if !cov && len(msgs) == 0 {
			msgs = append(msgs, "the release loop does not cover every record")
		}
		// (b) unconditional inside the loop
		for _, b := range clo.Blocks {
			iff := core.IfOf(b)
			if iff == nil {
				continue
			}
			if _, isInd := indOfBlock(b); isInd {
				continue
			}
			if core.GuardedBy(iff, true, rel) || core.GuardedBy(iff, false, rel) {
				msgs = append(msgs, "the release of a record is conditional (some record, e.g. the main record, is skipped)")
			}
		}
		// (c) the defer is established before any return
		if deferI != nil {
			if ok, _ := (core.PathQuery{Fn: fn, Avoid: func(i ssa.Instruction) bool { return i == ssa.Instruction(deferI) }, ExitReturnOnly: true}).Exists(); ok {
				msgs = append(msgs, "a return is reachable before the releasing defer is established")
			}
		}
		if len(msgs) == 0 {
			releasers[fn] = true
		}
		c.Check(len(msgs) == 0, key, p.Pos(rel.Pos()), core.FuncName(fn),
			"every record of the slice is released, unconditionally, on every return",
			strings.Join(msgs, "; ")+": the record stays counted by the consumer's limited allocator, in-use memory grows with every batch and a long stream ends in 'memory limit exceeded'")
	}
	// functions that hand their records to a releasing helper instead of looping themselves:
	// `defer releaseRecords(records)` established before any return, or a call on every path
	for changed := true; changed; {
		changed = false
		for _, fn := range sortedFuncs(p, reach) {
			if fn.Synthetic != "" || releasers[fn] {
				continue // (function literals count: a decoder may be handed over wrapped in a closure)
			}
			var recs *ssa.Parameter
			for _, pr := range fn.Params {
				if isRecordMsgSlice(pr.Type()) {
					recs = pr
				}
			}
			if recs == nil {
				continue
			}
			ownRelease := false
			for _, f := range core.WithClosures(fn) {
				core.EachInstr(f, func(j ssa.Instruction) {
					if cl, ok := j.(*ssa.Call); ok && cl.Call.IsInvoke() && cl.Call.Method.Name() == "Release" {
						ownRelease = true
					}
				})
			}
			if ownRelease {
				continue // judged above
			}
			var via ssa.CallInstruction
			core.EachCall(fn, func(ci ssa.CallInstruction) {
				if _, isGo := ci.(*ssa.Go); isGo {
					return
				}
				callee := ci.Common().StaticCallee()
				if callee == nil || !releasers[callee] {
					return
				}
				for _, a := range ci.Common().Args {
					if core.Canon(a) == ssa.Value(recs) {
						via = ci
					}
				}
			})
			if via == nil {
				continue
			}
			missed, _ := (core.PathQuery{Fn: fn, Avoid: func(i ssa.Instruction) bool { return i == via.(ssa.Instruction) }, ExitReturnOnly: true}).Exists()
			n++
			key := "fn=" + core.FuncName(fn)
			if !missed {
				releasers[fn] = true
				changed = true
			}
			c.Check(!missed, key, p.Pos(via.Pos()), core.FuncName(fn),
				"the records are handed to "+via.Common().StaticCallee().Name()+", which releases every one of them, on every return",
				"a return is reachable before the records are handed to the releasing helper: the records stay counted by the consumer's limited allocator")
		}
	}
	// (d) every Consumer.*From hands the consumed records to a releasing function on every success path of Consume
	callsConsume := func(f *ssa.Function) bool {
		found := false
		core.EachCall(f, func(ci ssa.CallInstruction) {
			if o := core.CalleeObj(ci); o != nil && o.Name() == "Consume" && core.RecvNamed(o) != nil && core.RecvNamed(o).Obj().Name() == "Consumer" {
				found = true
			}
		})
		return found
	}
	for _, from := range methodsOf(p, pkgArrowRecord, "Consumer", "TracesFrom", "LogsFrom", "MetricsFrom") {
		// the body may live in a helper the entry point delegates to (one generic helper for the three signals)
		if d := delegateOf(p, from, callsConsume); d != nil {
			from = d
		}
		var consume *ssa.Call
		core.EachInstr(from, func(i ssa.Instruction) {
			if cl, ok := i.(*ssa.Call); ok {
				if f := core.CalleeObj(cl); f != nil && f.Name() == "Consume" {
					consume = cl
				}
			}
		})
		if consume == nil {
			c.Undecided("from="+core.FuncName(from), p.Pos(from.Pos()), core.FuncName(from), "no Consume call found")
			continue
		}
		n++
		isHandOver := func(i ssa.Instruction) bool {
			cl, ok := i.(*ssa.Call)
			if !ok {
				return false
			}
			callee := core.StaticCallee(cl)
			if callee == nil || !releasers[callee] {
				return false
			}
			for _, a := range cl.Call.Args {
				if core.DerivesFrom(a, func(x ssa.Value) bool { return x == ssa.Value(consume) }) {
					return true
				}
			}
			return false
		}
		cut := map[core.Edge]bool{}
		// the failure edge right after Consume (records are nil/released there: C07.4)
		for _, b := range from.Blocks {
			if fe := failEdge(b); fe >= 0 && b == consume.Block() {
				cut[core.Edge{From: b, To: b.Succs[fe]}] = true
			}
		}
		leak, _ := (core.PathQuery{Fn: from, From: consume, Avoid: isHandOver, CutEdges: cut, ExitReturnOnly: true}).Exists()
		c.Check(!leak, "from="+core.FuncName(from), p.Pos(consume.Pos()), core.FuncName(from),
			"the records of a successful Consume reach a function that releases all of them on every path",
			fmt.Sprintf("a path from a successful Consume to a return of %s hands the records to no function that releases all of them: they stay counted by the limited allocator", from.Name()))
	}
	c.Stats["C07.8 release sites"] = n
}

func init() {
	register("C07", &core.Rule{ID: "C07.8", Title: "every record Consume retained is released: unconditional release loops, established first, reached from every *From", Mod: core.ModRoot, Floor: 6, Run: c07_8})
	for prop, id := range map[string]string{"C01": "C01.8", "C02": "C02.8", "C03": "C03.8"} {
		register(prop, &core.Rule{ID: id, Title: "long streams: every record the consumer retained is released (otherwise the limited allocator fills up and later batches are refused)", Mod: core.ModRoot, Floor: 2, Run: c07_8})
	}
}
