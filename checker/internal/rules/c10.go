package rules

import (
	"fmt"
	"go/ast"
	"go/token"
	"go/types"
	"strings"

	"golang.org/x/tools/go/ssa"

	"otelcheck/internal/core"
)

func init() {
	core.Describe("C10",
		"Static necessary conditions of tenant isolation and the cardinality limit, decided on the batch processor's code: "+
			"C10.1 in the multi-shard consume, the limit test, LoadOrStore, the size increment and the shard start lie in one critical section of the admission mutex, and the size field is never accessed without it (must-held lockset dataflow over the CFG); "+
			"C10.2 a request is refused iff limit≠0 ∧ size≥limit (guard truth table), the refused path returns the permanent error and reaches no consumeBatch; "+
			"C10.3 the lookup key and the shard's export metadata are built in one loop over all configured keys from the same Metadata.Get(k) value, and the key keeps the value list injectively (the list itself, or its single element under len==1); the same key is used for Load and LoadOrStore; "+
			"C10.4 every shard gets its own batch (a fresh batchFunc() result) and its own queue; "+
			"C10.5 the shard's export context is built from context.Background() and the metadata map assembled for this very key, never from a request context. "+
			"NOT decided: interleavings beyond the lock discipline, sync.Map internals, attribute.Set equality semantics.",
		"client.Metadata.Get is case-insensitive", "attribute.NewSet is injective on (key, value-list) pairs built with String/StringSlice")
	register("C10", &core.Rule{ID: "C10.1", Title: "admission is one critical section; size only under the lock", Mod: core.ModCBP, Floor: 4, Run: c10_1})
	register("C10", &core.Rule{ID: "C10.6", Title: "no refusal after the shard is stored; a stored shard is started and counted", Mod: core.ModCBP, Floor: 3, Run: c10_1})
	register("C05", &core.Rule{ID: "C05.14", Title: "every shard that is stored is started (requests for a stored but never started shard are swallowed)", Mod: core.ModCBP, Floor: 3, Run: c10_1})
	register("C10", &core.Rule{ID: "C10.2", Title: "refuse iff limit≠0 ∧ size≥limit; refused requests reach no shard", Mod: core.ModCBP, Floor: 2, Run: c10_2})
	register("C10", &core.Rule{ID: "C10.3", Title: "lookup key and export metadata from the same values, injectively, over all keys", Mod: core.ModCBP, Floor: 4, Run: c10_3})
	register("C10", &core.Rule{ID: "C10.4", Title: "one batch and one queue per shard", Mod: core.ModCBP, Floor: 2, Run: c10_4})
	register("C10", &core.Rule{ID: "C10.5", Title: "shard export context is processor-owned and carries this key's metadata", Mod: core.ModCBP, Floor: 2, Run: c10_5})
	register("C18", &core.Rule{ID: "C18.7", Title: "shard export context never derives from a request context", Mod: core.ModCBP, Floor: 2, Run: c10_5})
}

// heldAt computes, by a forward must-analysis over fn's CFG, whether the mutex
// identified by lockPath (access path of its address) is held just before
// each instruction. Lock/Unlock/RLock/RUnlock of sync.Mutex/RWMutex on that
// path are the only events; a deferred Unlock keeps the lock held to the end.
func heldAt(fn *ssa.Function, isLock func(ssa.Value) bool) map[ssa.Instruction]bool {
	type st = bool
	in := map[*ssa.BasicBlock]st{}
	out := map[*ssa.BasicBlock]st{}
	for _, b := range fn.Blocks {
		out[b] = true
	}
	apply := func(b *ssa.BasicBlock, s st, rec map[ssa.Instruction]bool) st {
		for _, i := range b.Instrs {
			if rec != nil {
				rec[i] = s
			}
			cl, ok := i.(*ssa.Call)
			if !ok {
				continue
			}
			f := core.CalleeObj(cl)
			if f == nil || len(cl.Call.Args) == 0 || !isLock(cl.Call.Args[0]) {
				continue
			}
			if core.IsMethodOf(f, "sync", "", "Lock") || core.IsMethodOf(f, "sync", "", "RLock") {
				s = true
			}
			if core.IsMethodOf(f, "sync", "", "Unlock") || core.IsMethodOf(f, "sync", "", "RUnlock") {
				s = false
			}
		}
		return s
	}
	for changed := true; changed; {
		changed = false
		for _, b := range fn.Blocks {
			s := true
			if len(b.Preds) == 0 {
				s = false
			}
			for _, p := range b.Preds {
				s = s && out[p]
			}
			in[b] = s
			o := apply(b, s, nil)
			if o != out[b] {
				out[b] = o
				changed = true
			}
		}
	}
	rec := map[ssa.Instruction]bool{}
	for _, b := range fn.Blocks {
		apply(b, in[b], rec)
	}
	return rec
}

type multiAnchors struct {
	recvT     *types.Named
	lockF     *types.Var
	sizeF     *types.Var
	mapF      *types.Var
	limitF    *types.Var
	keysF     *types.Var
	loadStore *ssa.Call
	load      *ssa.Call
	refuseRet *ssa.Return
	refuseIdx int
	family    []*ssa.Function // methods of the multi-shard batcher type
	errs      []string
}

// wrapsSyncMap: t is a struct of the package that holds a sync.Map (a typed wrapper around the shard map).
func wrapsSyncMap(t types.Type) bool {
	n := core.NamedOf(t)
	if n == nil || n.Obj().Pkg() == nil || n.Obj().Pkg().Path() != core.CBPPath {
		return false
	}
	st, ok := n.Underlying().(*types.Struct)
	if !ok {
		return false
	}
	for i := 0; i < st.NumFields(); i++ {
		if core.TypePkgPath(st.Field(i).Type()) == "sync" && core.TypeName(st.Field(i).Type()) == "Map" {
			return true
		}
	}
	return false
}

// isSyncMapOp: cl calls (*sync.Map).<name>, or a method of a wrapper type (wrapsSyncMap) that does so on every path.
func isSyncMapOp(cl *ssa.Call, name string) bool {
	if core.IsMethodOf(core.CalleeObj(cl), "sync", "Map", name) {
		return true
	}
	h := cl.Call.StaticCallee()
	if h == nil || len(h.Blocks) == 0 || h.Signature.Recv() == nil || !wrapsSyncMap(h.Signature.Recv().Type()) {
		return false
	}
	miss, _ := (core.PathQuery{Fn: h, ExitReturnOnly: true, Avoid: func(i ssa.Instruction) bool {
		c2, ok := i.(*ssa.Call)
		return ok && core.IsMethodOf(core.CalleeObj(c2), "sync", "Map", name)
	}}).Exists()
	return !miss
}

func inFamily(fam []*ssa.Function, g *ssa.Function) bool {
	for _, f := range fam {
		if f == g {
			return true
		}
	}
	return false
}

func (a *cbpAnchors) multi(m *cbpMore) *multiAnchors {
	x := &multiAnchors{}
	fn := m.multiConsume
	if fn == nil || fn.Signature.Recv() == nil {
		x.errs = append(x.errs, "multi-shard consume not found")
		return x
	}
	x.recvT = core.NamedOf(fn.Signature.Recv().Type())
	st := core.FlatStruct(x.recvT)
	for i := 0; st != nil && i < st.NumFields(); i++ {
		f := st.Field(i)
		switch {
		case core.TypePkgPath(f.Type()) == "sync" && (core.TypeName(f.Type()) == "Mutex" || core.TypeName(f.Type()) == "RWMutex"):
			x.lockF = f
		case core.TypePkgPath(f.Type()) == "sync" && core.TypeName(f.Type()) == "Map", wrapsSyncMap(f.Type()):
			x.mapF = f
		case isInt(f.Type()):
			x.sizeF = f
		}
	}
	// the request path of the multi-shard batcher may be one method or a method and the helpers it was split
	// into (key construction, locked slow path): all methods of the batcher type are searched, helpers with one
	// call site have their parameters bound to the arguments and their results followed by the backward slice
	var family []*ssa.Function
	for _, f := range a.p.FuncsIn(func(pp string) bool { return pp == core.CBPPath }) {
		if f.Signature.Recv() != nil && core.NamedOf(f.Signature.Recv().Type()) == x.recvT {
			family = append(family, f)
		}
	}
	// package-level helpers the request path was split into (`shardKey(info, keys)`) belong to it as well
	for k := 0; k < len(family) && k < 32; k++ {
		core.EachInstr(family[k], func(i ssa.Instruction) {
			cl, ok := i.(*ssa.Call)
			if !ok {
				return
			}
			g := cl.Call.StaticCallee()
			if g == nil || len(g.Blocks) == 0 || g.Signature.Recv() != nil || core.FnPkgPath(g) != core.CBPPath || g.Parent() != nil {
				return
			}
			for _, f := range family {
				if f == g {
					return
				}
			}
			family = append(family, g)
		})
	}
	sites := map[*ssa.Function][]*ssa.Call{}
	for _, f := range family {
		core.EachInstr(f, func(i ssa.Instruction) {
			if cl, ok := i.(*ssa.Call); ok {
				if g := cl.Call.StaticCallee(); g != nil && g != f && ((g.Signature.Recv() != nil && core.NamedOf(g.Signature.Recv().Type()) == x.recvT) || inFamily(family, g)) {
					sites[g] = append(sites[g], cl)
				}
			}
		})
	}
	for g, cs := range sites {
		if len(cs) != 1 {
			continue
		}
		for k, prm := range g.Params {
			if k < len(cs[0].Call.Args) {
				core.BindParam(prm, cs[0].Call.Args[k])
			}
		}
		core.MarkTransparent(g)
	}
	x.family = family
	for _, f := range family {
		core.EachInstr(f, func(i ssa.Instruction) {
			switch y := i.(type) {
			case *ssa.Call:
				if isSyncMapOp(y, "LoadOrStore") {
					x.loadStore = y
				}
				if isSyncMapOp(y, "Load") {
					x.load = y
				}
			case *ssa.Return:
				for k := range y.Results {
					res := core.ResultValue(y, k) // a deferred unlock spills the results into cells
					if u, ok := res.(*ssa.UnOp); ok && u.Op == token.MUL && isErr(u.Type()) {
						if _, isG := u.X.(*ssa.Global); isG {
							x.refuseRet, x.refuseIdx = y, k
						}
					}
				}
			}
		})
	}
	if x.loadStore != nil {
		fn = x.loadStore.Parent()
	}
	// limit field: the int field of the processor compared with size
	if m.procType != nil {
		core.EachInstr(fn, func(i ssa.Instruction) {
			b, ok := i.(*ssa.BinOp)
			if !ok {
				return
			}
			for _, pair := range [][2]ssa.Value{{b.X, b.Y}, {b.Y, b.X}} {
				if x.sizeF != nil && isFieldLoad(pair[0], x.sizeF) {
					if fa := core.LoadedField(pair[1]); fa != nil {
						x.limitF = core.FieldVar(fa)
					}
				}
			}
		})
		// keys field: []string field of the processor ranged over in consume
		ps := core.FlatStruct(m.procType)
		for i := 0; i < ps.NumFields(); i++ {
			if sl, ok := ps.Field(i).Type().Underlying().(*types.Slice); ok {
				if b, ok := sl.Elem().Underlying().(*types.Basic); ok && b.Kind() == types.String {
					x.keysF = ps.Field(i)
				}
			}
		}
	}
	for k, ok := range map[string]bool{"admission mutex": x.lockF != nil, "size field": x.sizeF != nil, "shard map": x.mapF != nil, "LoadOrStore call": x.loadStore != nil, "Load call": x.load != nil, "metadata keys field": x.keysF != nil} {
		if !ok {
			x.errs = append(x.errs, k+" not found")
		}
	}
	return x
}

func c10_1(c *core.Ctx, p *core.Prog) {
	a := newCBPAnchors(p)
	if !a.ok(c) {
		return
	}
	m := a.more()
	if !m.ok(c) {
		return
	}
	x := a.multi(m)
	if len(x.errs) > 0 {
		c.Undecided("anchors", "?", "", strings.Join(x.errs, "; "))
		return
	}
	fn := m.multiConsume
	isLock := func(v ssa.Value) bool {
		fa, ok := v.(*ssa.FieldAddr)
		return ok && core.FieldVar(fa) == x.lockF
	}
	held := heldAt(fn, isLock)
	// events that must be inside the critical section
	type ev struct {
		name string
		ins  ssa.Instruction
	}
	var evs []ev
	evs = append(evs, ev{"LoadOrStore", x.loadStore})
	core.EachInstr(fn, func(i ssa.Instruction) {
		if s, ok := storesTo(i, x.sizeF); ok {
			evs = append(evs, ev{"size update", s})
		}
		if cl, ok := i.(*ssa.Call); ok {
			if callee := cl.Call.StaticCallee(); callee != nil && core.FnPkgPath(callee) == core.CBPPath && callee.Signature.Recv() != nil {
				if n := core.NamedOf(callee.Signature.Recv().Type()); n != nil && n.Obj() == a.shard.Obj() {
					// shard.start(): the method that contains a go statement
					hasGo := false
					core.EachInstr(callee, func(j ssa.Instruction) {
						if _, ok := j.(*ssa.Go); ok {
							hasGo = true
						}
					})
					if hasGo {
						evs = append(evs, ev{"shard start", cl})
					}
				}
			}
		}
	})
	// the limit test: If instructions whose condition reads the size (directly
	// or through a same-package method returning it)
	readsSize := func(v ssa.Value) bool {
		return core.DerivesFrom(v, func(y ssa.Value) bool {
			if isFieldLoad(y, x.sizeF) {
				return true
			}
			if cl, ok := y.(*ssa.Call); ok {
				if callee := cl.Call.StaticCallee(); callee != nil && core.FnPkgPath(callee) == core.CBPPath {
					r := false
					core.EachInstr(callee, func(j ssa.Instruction) {
						if u, ok := j.(*ssa.UnOp); ok && isFieldLoad(u, x.sizeF) {
							r = true
						}
					})
					return r
				}
			}
			return false
		})
	}
	var limitIfs []*ssa.If
	core.EachInstr(fn, func(i ssa.Instruction) {
		if iff, ok := i.(*ssa.If); ok && readsSize(iff.Cond) {
			limitIfs = append(limitIfs, iff)
			evs = append(evs, ev{"limit test", iff})
		}
	})
	admission := c.RuleID() == "C10.1"
	if len(limitIfs) == 0 && admission {
		c.Viol("limit-test", p.Pos(fn.Pos()), core.FuncName(fn), "no test of the shard count against the cardinality limit found in the multi-shard consume")
	}
	for k, e := range evs {
		if !admission {
			break
		}
		c.Check(held[e.ins], fmt.Sprintf("held|%s#%d", e.name, k+1), p.Pos(e.ins.Pos()), core.FuncName(fn), e.name+" executes with the admission mutex held on every path",
			e.name+" can execute without the admission mutex held: two first arrivals of new combinations can both pass the limit test / both count themselves")
	}
	// one critical section: no Unlock between the limit test and the size update / LoadOrStore
	for _, iff := range limitIfs {
		if !admission {
			break
		}
		for _, e := range evs {
			if e.name == "limit test" {
				continue
			}
			broken := false
			core.EachInstr(fn, func(i ssa.Instruction) {
				cl, ok := i.(*ssa.Call)
				if !ok || len(cl.Call.Args) == 0 || !isLock(cl.Call.Args[0]) {
					return
				}
				f := core.CalleeObj(cl)
				if !core.IsMethodOf(f, "sync", "", "Unlock") {
					return
				}
				if core.Reachable(fn, iff, cl) && core.Reachable(fn, cl, e.ins) && !core.Reachable(fn, e.ins, iff) {
					broken = true
				}
			})
			c.Check(!broken, fmt.Sprintf("section|%s@%s", e.name, p.Pos(e.ins.Pos())), p.Pos(iff.Pos()), core.FuncName(fn), "limit test and "+e.name+" share one critical section",
				"the admission mutex is released between the limit test and the "+e.name+": the limit can be overshot by concurrent first arrivals")
		}
	}
	// order: no limit test (hence no refusal) after the shard has been stored; a stored shard is started and counted
	for _, iff := range limitIfs {
		if admission {
			break
		}
		c.Check(!core.Reachable(fn, x.loadStore, iff), "order|limit-before-store", p.Pos(x.loadStore.Pos()), core.FuncName(fn),
			"the limit test precedes LoadOrStore",
			"the limit is tested after LoadOrStore: a refused combination leaves a stored shard that is never started nor counted; a retry of the same combination finds it, enqueues into a queue nobody reads and (with early return) is told success")
	}
	cutLoaded := map[core.Edge]bool{}
	for _, r := range core.Referrers(x.loadStore) {
		ex, ok := r.(*ssa.Extract)
		if !ok || ex.Index != 1 {
			continue
		}
		for _, b := range fn.Blocks {
			iff := core.IfOf(b)
			if iff == nil {
				continue
			}
			cond := iff.Cond
			neg := false
			if u, ok := cond.(*ssa.UnOp); ok && u.Op == token.NOT {
				cond, neg = u.X, true
			}
			if cond != ssa.Value(ex) {
				continue
			}
			// cut the edge taken when loaded == true
			idx := 0
			if neg {
				idx = 1
			}
			cutLoaded[core.Edge{From: b, To: b.Succs[idx]}] = true
		}
	}
	for _, e := range evs {
		if admission || (e.name != "shard start" && e.name != "size update") {
			continue
		}
		target := e.ins
		skip, _ := (core.PathQuery{Fn: fn, From: x.loadStore, Avoid: func(i ssa.Instruction) bool { return i == target }, CutEdges: cutLoaded, ExitReturnOnly: true}).Exists()
		c.Check(!skip && len(cutLoaded) > 0, "stored|"+e.name, p.Pos(e.ins.Pos()), core.FuncName(fn),
			"every path on which a new shard was stored performs the "+e.name+" before returning",
			"a path from LoadOrStore (new shard stored) to a return skips the "+e.name+": the map holds a shard that is never started / not counted, and later requests for that combination are swallowed")
	}
	// every insertion into the shard map, wherever it happens, counts the shard: a shard stored outside the
	// admission path (e.g. pre-created at start) that is not counted makes the limit admit one more combination
	if !admission {
		nIns := 0
		for _, f := range cbpFuncs(c, p) {
			f := f
			core.EachInstr(f, func(i ssa.Instruction) {
				cl, ok := i.(*ssa.Call)
				if !ok || cl == x.loadStore {
					return
				}
				fo := core.CalleeObj(cl)
				if !(core.IsMethodOf(fo, "sync", "Map", "Store") || core.IsMethodOf(fo, "sync", "Map", "LoadOrStore") || core.IsMethodOf(fo, "sync", "Map", "Swap")) {
					return
				}
				if fa := core.LoadedField(cl.Call.Args[0]); fa == nil {
					if fa2, ok2 := cl.Call.Args[0].(*ssa.FieldAddr); !ok2 || core.FieldVar(fa2) != x.mapF {
						return
					}
				} else if core.FieldVar(fa) != x.mapF {
					return
				}
				nIns++
				isSize := func(j ssa.Instruction) bool { _, ok := storesTo(j, x.sizeF); return ok }
				skip, _ := (core.PathQuery{Fn: f, From: cl, Avoid: isSize, ExitReturnOnly: true}).Exists()
				c.Check(!skip, fmt.Sprintf("insert#%d@%s", nIns, core.FuncName(f)), p.Pos(cl.Pos()), core.FuncName(f),
					"the insertion into the shard map is followed by the size update on every path",
					"a shard is inserted into the map outside the admission path without being counted: metadata_cardinality_limit=N then admits N counted combinations plus this one, and requests for it bypass the limit test altogether")
			})
		}
	}
	// size accessed only under the lock, package-wide
	for _, f := range cbpFuncs(c, p) {
		if !admission {
			break
		}
		var h map[ssa.Instruction]bool
		core.EachInstr(f, func(i ssa.Instruction) {
			fa, ok := i.(*ssa.FieldAddr)
			if !ok || core.FieldVar(fa) != x.sizeF {
				return
			}
			if h == nil {
				h = heldAt(f, isLock)
			}
			for _, r := range core.Referrers(fa) {
				c.Check(h[r], fmt.Sprintf("size-access|%s@%s", core.FuncName(f), p.Pos(r.Pos())), p.Pos(r.Pos()), core.FuncName(f), "size accessed under the admission mutex", "the shard count is accessed without the admission mutex (data race with admission)")
			}
		})
	}
}

func c10_2(c *core.Ctx, p *core.Prog) {
	a := newCBPAnchors(p)
	if !a.ok(c) {
		return
	}
	m := a.more()
	if !m.ok(c) {
		return
	}
	x := a.multi(m)
	if len(x.errs) > 0 {
		c.Undecided("anchors", "?", "", strings.Join(x.errs, "; "))
		return
	}
	fn := m.multiConsume
	if x.refuseRet == nil {
		c.Viol("refuse", p.Pos(fn.Pos()), core.FuncName(fn), "the multi-shard consume has no path returning the package's 'too many combinations' error: the cardinality limit is not enforced")
		return
	}
	fn = x.refuseRet.Parent()
	pos := p.Pos(x.refuseRet.Pos())
	// the returned global is built by consumererror.NewPermanent
	g := core.ResultValue(x.refuseRet, x.refuseIdx).(*ssa.UnOp).X.(*ssa.Global)
	perm := false
	if initFn := g.Pkg.Func("init"); initFn != nil {
		core.EachInstr(initFn, func(i ssa.Instruction) {
			if s, ok := i.(*ssa.Store); ok && s.Addr == ssa.Value(g) {
				if core.DerivesFrom(s.Val, func(v ssa.Value) bool {
					cl, ok := v.(*ssa.Call)
					return ok && core.IsPkgFunc(core.CalleeObj(cl), "go.opentelemetry.io/collector/consumer/consumererror", "NewPermanent")
				}) {
					perm = true
				}
			}
		})
	}
	c.Check(perm, "refuse|permanent", pos, core.FuncName(fn), "refused requests get a permanent error", "the error returned for an over-limit combination is not built by consumererror.NewPermanent: callers would retry forever")
	conds, ge, cx, err := guardAtPos(p, x.refuseRet.Pos())
	if err != nil || cx {
		c.Undecided("refuse|guard", pos, core.FuncName(fn), "path condition not recognised")
		return
	}
	pk := ge.Pkg
	sizeGetters := map[types.Object]bool{}
	for _, f := range cbpFuncs(c, p) {
		if f.Signature.Recv() == nil || f.Signature.Results().Len() != 1 || !isInt(f.Signature.Results().At(0).Type()) {
			continue
		}
		all := true
		n := 0
		for _, r := range core.Returns(f) {
			n++
			if !core.DerivesFrom(r.Results[0], func(v ssa.Value) bool { return isFieldLoad(v, x.sizeF) }) {
				all = false
			}
		}
		if all && n > 0 && f.Object() != nil {
			sizeGetters[f.Object()] = true
		}
	}
	ge.Roles = func(obj types.Object, e ast.Expr) (string, bool) {
		switch {
		case obj == types.Object(x.sizeF) || sizeGetters[obj]:
			return "size", true
		case x.limitF != nil && obj == types.Object(x.limitF):
			return "limit", true
		}
		// `ok` of the Load: unknown boolean, dropped below
		return "", false
	}
	_ = pk
	var usable []core.Cond
	for _, cd := range conds {
		if _, e := ge.Terms([]core.Cond{cd}); e == nil {
			usable = append(usable, cd)
		}
	}
	ok, w, n, err := compareGuard(ge, usable, []string{"size", "limit"}, []int64{0, 1, 2, 3}, func(env map[string]int64) bool {
		return env["limit"] != 0 && env["size"] >= env["limit"]
	}, "equiv")
	c.Stats["guard_valuations"] += n
	if err != nil {
		c.Undecided("refuse|guard", pos, core.FuncName(fn), err.Error())
	} else {
		c.Check(ok, "refuse|guard", pos, core.FuncName(fn), "refuse iff limit≠0 ∧ size≥limit (for a combination not yet admitted)",
			"refusal guard "+condString(usable)+" differs from 'limit≠0 ∧ size≥limit' at "+w+": one combination too many is admitted, or an admissible one is refused")
	}
	// the refused path reaches no consumeBatch: trivially (it is a return); but no
	// enqueue may precede it
	pre := false
	core.EachInstr(fn, func(i ssa.Instruction) {
		if cl, ok := i.(*ssa.Call); ok && cl.Call.StaticCallee() == m.enqueueFn && core.Reachable(fn, cl, x.refuseRet) {
			pre = true
		}
	})
	c.Check(!pre, "refuse|no-export", pos, core.FuncName(fn), "nothing is enqueued on the refused path", "a request can be enqueued before it is refused")
}

func c10_3(c *core.Ctx, p *core.Prog) {
	a := newCBPAnchors(p)
	if !a.ok(c) {
		return
	}
	m := a.more()
	if !m.ok(c) {
		return
	}
	x := a.multi(m)
	if len(x.errs) > 0 {
		c.Undecided("anchors", "?", "", strings.Join(x.errs, "; "))
		return
	}
	fn := m.multiConsume
	// the Get call (in the consume method or the helper that builds the key)
	var get *ssa.Call
	for _, f := range x.family {
		core.EachInstr(f, func(i ssa.Instruction) {
			if cl, ok := i.(*ssa.Call); ok {
				if fo := core.CalleeObj(cl); core.IsMethodOf(fo, "go.opentelemetry.io/collector/client", "Metadata", "Get") {
					get = cl
				}
			}
		})
	}
	if get != nil {
		fn = get.Parent()
	}
	if get == nil {
		c.Undecided("get", p.Pos(fn.Pos()), core.FuncName(fn), "no client.Metadata.Get in the multi-shard consume")
		return
	}
	pos := p.Pos(get.Pos())
	// the key argument ranges over all configured keys
	keyArg := core.CallArgs(get)[0]
	covered, cmsg := false, "the metadata key passed to Get does not range over the configured key list"
	core.BackSlice(keyArg, func(v ssa.Value) bool {
		acc, ok := core.ElemAccessOf(v)
		if !ok || acc.Phi == nil {
			return true
		}
		if !isFieldLoad(acc.Base, x.keysF) && !isFieldLoad(core.Canon(core.ResolveParam(core.Canon(acc.Base))), x.keysF) {
			cmsg = "Get's key is not an element of the processor's configured key list"
			return false
		}
		ind, ok := core.InductionOf(acc.Phi)
		if !ok {
			cmsg = "loop form not recognised"
			return false
		}
		lo, hi, ok := ind.Coverage(acc)
		if !ok {
			cmsg = "loop bound is not the length of the key list"
			return false
		}
		if lo <= 0 && hi >= 0 {
			covered, cmsg = true, "Get is applied to every configured key"
		} else {
			cmsg = fmt.Sprintf("only keys [%d, len%+d) take part in the lookup key: requests differing in the other keys share a shard", lo, hi)
		}
		return false
	})
	c.Check(covered, "keys|coverage", pos, core.FuncName(fn), cmsg, cmsg)
	// the metadata map update uses the same key and value
	mdOK := false
	var mdMap ssa.Value
	core.EachInstr(fn, func(i ssa.Instruction) {
		if mu, ok := i.(*ssa.MapUpdate); ok {
			if mu.Value == ssa.Value(get) && mu.Key == keyArg {
				mdOK = true
				mdMap = mu.Map
			}
		}
	})
	c.Check(mdOK, "md|same-value", pos, core.FuncName(fn), "the export metadata records exactly the value list that forms the lookup key",
		"the export metadata is not filled with md[k] = Get(k) for the same k and value as the lookup key: the client metadata seen by the exporter can disagree with the shard's combination")
	// attribute constructors: value is the list itself or its single element under len==1
	nAttr := 0
	var bad []string
	core.EachInstr(fn, func(i ssa.Instruction) {
		cl, ok := i.(*ssa.Call)
		if !ok {
			return
		}
		f := core.CalleeObj(cl)
		if f == nil || f.Pkg() == nil || f.Pkg().Path() != "go.opentelemetry.io/otel/attribute" || len(cl.Call.Args) != 2 {
			return
		}
		if core.TypeName(cl.Type()) != "KeyValue" {
			return
		}
		nAttr++
		if cl.Call.Args[0] != keyArg {
			bad = append(bad, fmt.Sprintf("%s: attribute key is not the metadata key", p.Pos(cl.Pos())))
		}
		v := cl.Call.Args[1]
		switch {
		case v == ssa.Value(get):
		default:
			// vs[0] under len(vs)==1
			okSingle := false
			if u, ok := v.(*ssa.UnOp); ok && u.Op == token.MUL {
				if ia, ok := u.X.(*ssa.IndexAddr); ok && ia.X == ssa.Value(get) {
					if k, isC := core.ConstInt(ia.Index); isC && k == 0 {
						for _, b := range fn.Blocks {
							iff := core.IfOf(b)
							if iff == nil {
								continue
							}
							cmp, ok := iff.Cond.(*ssa.BinOp)
							if !ok || cmp.Op != token.EQL {
								continue
							}
							base, sub, okL := core.LenOf(cmp.X)
							one, okK := core.ConstInt(cmp.Y)
							if okL && okK && sub == 0 && one == 1 && base == ssa.Value(get) && core.GuardedBy(iff, true, cl) {
								okSingle = true
							}
						}
					}
				}
			}
			if !okSingle {
				bad = append(bad, fmt.Sprintf("%s: the key attribute's value is neither the value list itself nor its only element under len==1 (e.g. a joined or truncated form): different value lists can collide on one shard", p.Pos(cl.Pos())))
			}
		}
	})
	c.Check(len(bad) == 0 && nAttr > 0, "key|injective", pos, core.FuncName(fn), fmt.Sprintf("%d attribute constructor(s) keep the value list injectively", nAttr), strings.Join(bad, "; "))
	// Load and LoadOrStore use the same key value
	k1 := core.Strip(core.ResolveParam(core.CallArgs(x.load)[0]))
	k2 := core.Strip(core.ResolveParam(core.CallArgs(x.loadStore)[0]))
	sameKey := k1 == k2
	fromAttrs := core.DerivesFrom(k1, func(v ssa.Value) bool {
		cl, ok := v.(*ssa.Call)
		return ok && core.IsPkgFunc(core.CalleeObj(cl), "go.opentelemetry.io/otel/attribute", "NewSet")
	})
	c.Check(sameKey && fromAttrs, "key|same", p.Pos(x.loadStore.Pos()), core.FuncName(fn), "Load and LoadOrStore use the same attribute set", "Load and LoadOrStore do not use the same attribute-set key: a combination can be admitted twice or looked up under a different key")
	// the md map is the one handed to the shard constructor
	handed := false
	for _, f := range x.family {
		core.EachInstr(f, func(i ssa.Instruction) {
			if cl, ok := i.(*ssa.Call); ok && cl.Call.StaticCallee() == m.newShardFn {
				for _, arg := range core.CallArgs(cl) {
					if mdMap != nil && (arg == mdMap || core.DerivesFrom(arg, func(v ssa.Value) bool { return v == mdMap })) {
						handed = true
					}
				}
			}
		})
	}
	c.Check(handed, "md|handed", pos, core.FuncName(fn), "the shard is constructed with the metadata map built for this key", "the shard is not constructed with the metadata map built from this request's key values")
	// the shard stored under the key is that very shard: every value that can reach LoadOrStore's second
	// argument is a constructor call with this request's metadata map, not something kept from an earlier request
	{
		val := core.CallArgs(x.loadStore)[1]
		okAll, why := true, ""
		nSrc := 0
		core.BackSlice(val, func(v ssa.Value) bool {
			switch y := v.(type) {
			case *ssa.MakeInterface, *ssa.ChangeInterface, *ssa.ChangeType, *ssa.Phi:
				return true
			case *ssa.Call:
				nSrc++
				fresh := y.Call.StaticCallee() == m.newShardFn
				if fresh {
					fresh = false
					for _, arg := range core.CallArgs(y) {
						if mdMap != nil && (arg == mdMap || core.DerivesFrom(arg, func(v ssa.Value) bool { return v == mdMap })) {
							fresh = true
						}
					}
				}
				if !fresh {
					okAll, why = false, "a value that is not the shard constructor applied to this request's metadata map"
				}
				return false
			case *ssa.UnOp:
				nSrc++
				okAll = false
				if fa := core.LoadedField(y); fa != nil {
					why = "the field " + core.FieldName(fa) + ", which outlives the request (a shard built for an earlier request's metadata)"
				} else {
					why = "a value loaded from memory that outlives the request"
				}
				return false
			default:
				nSrc++
				okAll, why = false, "a value whose origin is not the shard constructor"
				return false
			}
		})
		c.Check(okAll && nSrc > 0, "md|stored", p.Pos(x.loadStore.Pos()), core.FuncName(fn),
			"the shard stored under the key is the one constructed from this request's metadata",
			"the shard stored under this key can be "+why+": its export context carries another combination's metadata values, so batches of this tenant are exported as another tenant's")
	}
}

func c10_4(c *core.Ctx, p *core.Prog) {
	a := newCBPAnchors(p)
	if !a.ok(c) {
		return
	}
	m := a.more()
	if !m.ok(c) {
		return
	}
	fn := m.newShardFn
	var batchV, chanV ssa.Value
	core.EachInstr(fn, func(i ssa.Instruction) {
		s, ok := i.(*ssa.Store)
		if !ok {
			return
		}
		fa, ok := s.Addr.(*ssa.FieldAddr)
		if !ok {
			return
		}
		if n := core.NamedOf(fa.X.Type()); n == nil || n.Obj() != a.shard.Obj() {
			return
		}
		fv := core.FieldVar(fa)
		if types.Identical(fv.Type(), a.batchIface) {
			batchV = s.Val
		}
		if fv == m.itemChanField {
			chanV = s.Val
		}
	})
	pos := p.Pos(fn.Pos())
	okB := false
	if cl, ok := batchV.(*ssa.Call); ok && cl.Call.StaticCallee() == nil && !cl.Call.IsInvoke() {
		// dynamic call of a func value loaded from a processor field (the factory)
		if fa := core.LoadedField(cl.Call.Value); fa != nil {
			if _, isSig := core.FieldVar(fa).Type().Underlying().(*types.Signature); isSig {
				okB = true
			}
		}
	}
	c.Check(okB, "own-batch", pos, core.FuncName(fn), "each shard's batch is a fresh result of the batch factory", "the shard's batch is not a fresh result of the processor's batch factory called in the shard constructor: shards would share one pending buffer and mix tenants")
	_, okC := chanV.(*ssa.MakeChan)
	c.Check(okC, "own-queue", pos, core.FuncName(fn), "each shard gets its own queue", "the shard's request queue is not created in the shard constructor: shards would share a queue")
	// the batch factories return fresh allocations
	n := 0
	for _, f := range cbpFuncs(c, p) {
		if f.Signature.Params().Len() != 0 || f.Signature.Results().Len() != 1 || !types.Identical(f.Signature.Results().At(0).Type(), a.batchIface) || f.Parent() == nil {
			continue
		}
		n++
		fresh := true
		for _, r := range core.Returns(f) {
			v := core.Strip(r.Results[0])
			cl, ok := v.(*ssa.Call)
			if !ok || cl.Call.StaticCallee() == nil {
				fresh = false
				continue
			}
			ctor := cl.Call.StaticCallee()
			for _, r2 := range core.Returns(ctor) {
				if al, ok := core.Strip(r2.Results[0]).(*ssa.Alloc); !ok || !al.Heap {
					fresh = false
				}
			}
		}
		c.Check(fresh, "factory="+core.FuncName(f), p.Pos(f.Pos()), core.FuncName(f), "batch factory returns a fresh allocation", "a batch factory does not return a fresh allocation: shards would share a batch")
	}
}

func c10_5(c *core.Ctx, p *core.Prog) {
	a := newCBPAnchors(p)
	if !a.ok(c) {
		return
	}
	m := a.more()
	if !m.ok(c) {
		return
	}
	// every store to a context-typed field of the shard struct, package-wide
	n := 0
	for _, fn := range cbpFuncs(c, p) {
		core.EachInstr(fn, func(i ssa.Instruction) {
			s, ok := i.(*ssa.Store)
			if !ok {
				return
			}
			fa, ok := s.Addr.(*ssa.FieldAddr)
			if !ok || !isCtx(core.FieldVar(fa).Type()) {
				return
			}
			if nn := core.NamedOf(fa.X.Type()); nn == nil || nn.Obj() != a.shard.Obj() {
				return
			}
			n++
			key := fmt.Sprintf("exportctx-store#%d@%s", n, core.FuncName(fn))
			pos := p.Pos(s.Pos())
			org := a.ctxOriginsDeep(s.Val, 0)
			var kinds []string
			for k := range org {
				kinds = append(kinds, k)
			}
			switch {
			case len(org["caller"]) > 0 || len(org["param"]) > 0 || len(org["unknown"]) > 0:
				c.Viol(key, pos, core.FuncName(fn), "the shard's export context derives from a request context ("+strings.Join(kinds, ",")+"): once that request is cancelled or times out, every later multi-contributor batch of the shard is exported under a dead context")
			case len(org["own"]) > 0:
				c.OK(key, pos, core.FuncName(fn), "the shard's export context derives only from context.Background()")
			default:
				c.Undecided(key, pos, core.FuncName(fn), "origin of the shard's export context not recognised")
			}
			// carries the metadata parameter
			if fn == m.newShardFn {
				var mdP *ssa.Parameter
				for _, pr := range fn.Params {
					if _, ok := pr.Type().Underlying().(*types.Map); ok {
						mdP = pr
					}
				}
				carries := mdP != nil && core.DerivesFrom(s.Val, func(v ssa.Value) bool {
					cl, ok := v.(*ssa.Call)
					if !ok || !core.IsPkgFunc(core.CalleeObj(cl), "go.opentelemetry.io/collector/client", "NewMetadata") {
						return false
					}
					return cl.Call.Args[0] == ssa.Value(mdP)
				}) && core.DerivesFrom(s.Val, func(v ssa.Value) bool {
					cl, ok := v.(*ssa.Call)
					return ok && core.IsPkgFunc(core.CalleeObj(cl), "go.opentelemetry.io/collector/client", "NewContext")
				})
				c.Check(carries, "exportctx-metadata", pos, core.FuncName(fn), "the export context carries client.NewMetadata(md) of the shard's own metadata", "the shard's export context does not carry client.NewMetadata of the metadata map the shard was created for")
			}
		})
	}
}

// ctxOriginsDeep is ctxOrigins that additionally resolves context-typed
// parameters through the static call sites of the function inside the package.
func (a *cbpAnchors) ctxOriginsDeep(v ssa.Value, depth int) map[string][]ssa.Value {
	out := map[string][]ssa.Value{}
	add := func(m map[string][]ssa.Value) {
		for k, vs := range m {
			out[k] = append(out[k], vs...)
		}
	}
	core.BackSlice(v, func(x ssa.Value) bool {
		switch y := x.(type) {
		case *ssa.Parameter:
			if !isCtx(y.Type()) {
				return true
			}
			fn := y.Parent()
			idx := -1
			for i, pr := range fn.Params {
				if pr == y {
					idx = i
				}
			}
			sites := 0
			if depth < 3 {
				for _, caller := range a.p.FuncsIn(func(pp string) bool { return pp == core.CBPPath }) {
					core.EachCall(caller, func(ci ssa.CallInstruction) {
						if ci.Common().StaticCallee() == fn && idx < len(ci.Common().Args) {
							sites++
							add(a.ctxOriginsDeep(ci.Common().Args[idx], depth+1))
						}
					})
				}
			}
			if sites == 0 {
				out["param"] = append(out["param"], y)
			}
			return false
		case *ssa.FieldAddr:
			if fv := core.FieldVar(y); fv != nil && isCtx(fv.Type()) {
				owner := core.NamedOf(y.X.Type())
				if owner != nil && a.shard != nil && owner.Obj() == a.shard.Obj() {
					out["own"] = append(out["own"], y)
				} else {
					out["caller"] = append(out["caller"], y)
				}
				return false
			}
		case *ssa.Call:
			f := core.CalleeObj(y)
			if f == nil {
				return true
			}
			if core.IsPkgFunc(f, "context", "Background") || core.IsPkgFunc(f, "context", "TODO") {
				out["own"] = append(out["own"], y)
				return false
			}
			if isCtx(y.Type()) {
				followed := false
				for _, arg := range y.Call.Args {
					if isCtx(arg.Type()) {
						add(a.ctxOriginsDeep(arg, depth))
						followed = true
					}
				}
				if !followed {
					out["unknown"] = append(out["unknown"], y)
				}
				return false
			}
		}
		return true
	})
	return out
}
