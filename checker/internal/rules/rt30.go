package rules

import (
	"fmt"

	"golang.org/x/tools/go/ssa"

	"otelcheck/internal/core"
)

// RT.30 — the "column wanted" latch of an optional column wrapper is cleared
// only by the request it stands for.
//
// A column wrapper whose Arrow column does not exist yet keeps a pointer to the
// schema-update request counter (`updateRequest`); the first value that needs
// the column removes the "optional" mark of the transform node, counts a
// request, and clears the pointer ("no need to report this again").  The
// wrapper lives across batches until a schema update re-creates it, so a path
// that clears the pointer without having counted the request switches the
// column off for good: later values that need it are dropped silently.
//
// Rule (sibling cross-check over the 29 sites of the builder package): every
// store of nil to such a field is dominated, within its function, by a call of
// Inc on the value loaded from the same field.

func rt_30(c *core.Ctx, p *core.Prog) {
	fns := p.FuncsIn(func(pp string) bool { return pp == pkgBuilder || (core.IsCanaryPath(pp) && c.InScope(pp)) })
	for _, fn := range fns {
		if fn.Synthetic != "" {
			continue
		}
		k := 0
		core.EachInstr(fn, func(i ssa.Instruction) {
			st, ok := i.(*ssa.Store)
			if !ok || !core.IsNilConst(st.Val) {
				return
			}
			fa, ok := st.Addr.(*ssa.FieldAddr)
			if !ok {
				return
			}
			fv := core.FieldVar(fa)
			if fv == nil || core.TypeName(fv.Type()) != "SchemaUpdateRequest" {
				return
			}
			k++
			key := fmt.Sprintf("latch|fn=%s#%d", core.FuncName(fn), k)
			isInc := func(j ssa.Instruction) bool {
				cl, ok := j.(*ssa.Call)
				if !ok {
					return false
				}
				f := core.CalleeObj(cl)
				if f == nil || f.Name() != "Inc" || len(cl.Call.Args) == 0 {
					return false
				}
				l := core.LoadedField(cl.Call.Args[0])
				return l != nil && core.FieldVar(l) == fv
			}
			// the request may be counted by a small helper that is handed the pointer (`requestNewField(node, b.updateRequest)`)
			direct := isInc
			isInc = func(j ssa.Instruction) bool {
				if direct(j) {
					return true
				}
				cl, ok := j.(*ssa.Call)
				if !ok {
					return false
				}
				h := cl.Call.StaticCallee()
				if h == nil || len(h.Blocks) == 0 || !core.InRepo(core.FnPkgPath(h)) {
					return false
				}
				for k, a := range cl.Call.Args {
					l := core.LoadedField(a)
					if l == nil || core.FieldVar(l) != fv || k >= len(h.Params) {
						continue
					}
					prm := h.Params[k]
					miss, _ := (core.PathQuery{Fn: h, ExitReturnOnly: true, Avoid: func(x ssa.Instruction) bool {
						c2, ok := x.(*ssa.Call)
						if !ok {
							return false
						}
						f := core.CalleeObj(c2)
						return f != nil && f.Name() == "Inc" && len(c2.Call.Args) > 0 && c2.Call.Args[0] == ssa.Value(prm)
					}}).Exists()
					if !miss {
						return true
					}
				}
				return false
			}
			skip, _ := (core.PathQuery{Fn: fn, To: st, Avoid: isInc}).Exists()
			c.Check(!skip, key, p.Pos(st.Pos()), core.FuncName(fn),
				"the latch is cleared only after the request was counted",
				"the pointer to the schema-update request ("+fv.Name()+") is cleared on a path that did not count a request: the wrapper outlives the batch, so the column it stands for is never asked for again and every later value that needs it is dropped silently")
		})
	}
}

func init() {
	for _, prop := range []string{"C01", "C02", "C03", "C04"} {
		register(prop, &core.Rule{ID: "RT.30", Title: "the 'column wanted' latch of an optional column wrapper is cleared only after the request was counted", Mod: core.ModRoot, Floor: 25, Run: rt_30})
	}
}
