package rules

import (
	"fmt"
	"go/types"
	"strings"

	"golang.org/x/tools/go/ssa"

	"otelcheck/internal/core"
)

// RT.29 — a nested column is read with its own field ids.
//
// The decoders fetch a struct (or list-of-structs) column with the id kept in
// an ids object, `S := StructFromRecord(record, P.f, row)`, and then read the
// children of S with ids that must belong to the same ids object P — directly
// (`XFromStruct(S, P.g, row)`) or by handing S and the ids object to a helper
// (`AppendBucketsInto(dst, S, P, row)`).  Two sibling columns of the same
// struct type (the positive and the negative buckets of an exponential
// histogram) have ids objects of the same Go type, so passing the sibling's ids
// type-checks; the child positions of the two columns differ as soon as their
// optional children do, and the reads then hit the wrong child, fail, or index
// out of range.  The origin engine is field-based and cannot tell the two
// objects apart; this rule compares access paths at the use.
//
// Rule: for every argument of a call that receives S, an argument whose static
// type is the type of P (an ids object) must have P's access path, and an
// integer argument read from an ids object of P's type must be read from P.

func structFetch(cl *ssa.Call) (idArg ssa.Value, ok bool) {
	f := core.CalleeObj(cl)
	if f == nil || f.Pkg() == nil || f.Pkg().Path() != pkgArrowUtils {
		return nil, false
	}
	if !strings.Contains(f.Name(), "Struct") || !strings.Contains(f.Name(), "From") {
		return nil, false
	}
	sig := f.Type().(*types.Signature)
	for k := 0; k < sig.Params().Len() && k < len(cl.Call.Args); k++ {
		if basicKind(sig.Params().At(k).Type()) == types.Int && strings.Contains(strings.ToLower(sig.Params().At(k).Name()), "id") {
			return cl.Call.Args[k], true
		}
	}
	return nil, false
}

// idsOwner: for a value read as `*(&P.f)`, the access path and static type of P.
func idsOwner(v ssa.Value) (path string, typ types.Type, ok bool) {
	fa := core.LoadedField(core.Strip(v))
	if fa == nil {
		return "", nil, false
	}
	path = localPath(fa.X)
	if path == "" {
		return "", nil, false
	}
	return path, fa.X.Type(), true
}

// localPath renders v as an access path that is stable within one function:
// the symbolic access path where there is one, otherwise field selections on
// top of the SSA register that holds the root object (a call result, a φ).
func localPath(v ssa.Value) string {
	v = core.Strip(v)
	if s := core.AccessPath(v); s != "" {
		return s
	}
	if fa := core.LoadedField(v); fa != nil {
		if base := localPath(fa.X); base != "" {
			return base + "." + core.FieldName(fa)
		}
		return ""
	}
	if fa, ok := v.(*ssa.FieldAddr); ok {
		if base := localPath(fa.X); base != "" {
			return base + "." + core.FieldName(fa)
		}
		return ""
	}
	switch v.(type) {
	case *ssa.Call, *ssa.Extract, *ssa.Phi, *ssa.Alloc, *ssa.Parameter, *ssa.FreeVar:
		return v.Name()
	}
	return ""
}

func rt_29(c *core.Ctx, p *core.Prog) {
	reach := repoReach(p, p.CHA(), consumerEntries(p))
	fns := sortedFuncs(p, reach)
	fns = append(fns, p.FuncsIn(func(pp string) bool { return core.IsCanaryPath(pp) && c.InScope(pp) })...)
	for _, fn := range fns {
		if fn.Synthetic != "" {
			continue
		}
		k := 0
		core.EachInstr(fn, func(i ssa.Instruction) {
			cl, ok := i.(*ssa.Call)
			if !ok {
				return
			}
			idArg, ok := structFetch(cl)
			if !ok {
				return
			}
			pPath, pTyp, ok := idsOwner(idArg)
			if !ok {
				return // the id is not read from an ids object here (a parameter, a local): nothing to pair
			}
			k++
			key := fmt.Sprintf("pair|fn=%s|col=%s#%d", core.FuncName(fn), localPath(idArg), k)
			pos := p.Pos(cl.Pos())
			al := aliasesOf(cl)
			var bad []string
			uses := 0
			for v := range al {
				for _, r := range core.Referrers(v) {
					d, ok := r.(*ssa.Call)
					if !ok || d == cl {
						continue
					}
					isArg := false
					for _, a := range d.Call.Args {
						if al[a] {
							isArg = true
						}
					}
					if !isArg {
						continue
					}
					for _, a := range d.Call.Args {
						if al[a] {
							continue
						}
						sa := core.Strip(a)
						// an ids object of P's type
						if types.Identical(sa.Type(), pTyp) {
							uses++
							if q := localPath(sa); q != "" && q != pPath {
								bad = append(bad, fmt.Sprintf("%s: the column fetched with %s is read with the ids object %s", p.Pos(d.Pos()), pPath, q))
							}
							continue
						}
						// an id read from an ids object of P's type
						if basicKind(sa.Type()) == types.Int {
							if q, qt, ok := idsOwner(sa); ok && types.Identical(qt, pTyp) {
								uses++
								if q != pPath {
									bad = append(bad, fmt.Sprintf("%s: a child of the column fetched with %s is read with an id of %s", p.Pos(d.Pos()), pPath, q))
								}
							}
						}
					}
				}
			}
			if uses == 0 {
				return
			}
			c.Check(len(bad) == 0, key, pos, core.FuncName(fn),
				fmt.Sprintf("the column fetched with %s is read with ids of %s only (%d uses)", pPath, pPath, uses),
				strings.Join(bad, "; ")+" — a sibling column's ids: the child positions differ as soon as the two columns do not carry the same optional children, so values are read from the wrong child, the batch is refused, or the consumer indexes out of range")
		})
	}
}

func init() {
	for _, prop := range []string{"C01", "C02", "C03"} {
		register(prop, &core.Rule{ID: "RT.29", Title: "a nested column is read with the field ids of its own ids object, not a sibling's of the same type", Mod: core.ModRoot, Floor: 3, FloorBy: map[string]int{"C03": 4}, Run: rt_29, Canary: rt29Canary})
	}
}

const rt29Canary = `package c

import (
	"github.com/apache/arrow-go/v18/arrow"
	"github.com/apache/arrow-go/v18/arrow/array"

	arrowutils "github.com/open-telemetry/otel-arrow/pkg/arrow"
)

type SideIds struct {
	ID    int
	Count int
}

type Ids struct {
	Left  *SideIds
	Right *SideIds
}

func readSide(s *array.Struct, ids *SideIds, row int) (int64, error) {
	return arrowutils.I64FromStruct(s, row, ids.Count)
}

// BadSiblingIds reads the right column with the left column's ids.
func BadSiblingIds(record arrow.Record, ids *Ids, row int) (int64, error) {
	right, err := arrowutils.StructFromRecord(record, ids.Right.ID, row)
	if err != nil || right == nil {
		return 0, err
	}
	return readSide(right, ids.Left, row)
}

// GoodOwnIds reads each column with its own ids.
func GoodOwnIds(record arrow.Record, ids *Ids, row int) (int64, error) {
	left, err := arrowutils.StructFromRecord(record, ids.Left.ID, row)
	if err != nil || left == nil {
		return 0, err
	}
	return readSide(left, ids.Left, row)
}
`
