package rules

import (
	"fmt"
	"go/token"
	"go/types"
	"strings"

	"golang.org/x/tools/go/ssa"

	"otelcheck/internal/core"
)

// C17.13 — "encrypt everything" is switched off only by a non-empty attribute list.
//
// The processor obfuscates every string attribute unless a list of attribute names is configured;
// the code turns `encrypt_all` off when it builds the lookup table of that list. If the test that
// guards this is wrong (`len(list) >= 0`), the default configuration — no list — ends up with
// encrypt_all off and an empty list: nothing at all is obfuscated, silently, and the tests do not
// notice because they build the processor struct by hand.
//
// Rule: every store of the constant false into the configuration field tagged
// `mapstructure:"encrypt_all"` is dominated by the edge of a length test on which the length is
// known to be positive.
func c17_13(c *core.Ctx, p *core.Prog) {
	n := 0
	for _, fn := range p.FuncsIn(func(pp string) bool { return pp == core.ObfPath }) {
		core.EachInstr(fn, func(i ssa.Instruction) {
			st, ok := i.(*ssa.Store)
			if !ok {
				return
			}
			fa, ok := st.Addr.(*ssa.FieldAddr)
			if !ok {
				return
			}
			b, isB := core.ConstBool(st.Val)
			if !isB || b {
				return
			}
			// the field tagged encrypt_all
			pt, ok := fa.X.Type().Underlying().(*types.Pointer)
			if !ok {
				return
			}
			stt, ok := pt.Elem().Underlying().(*types.Struct)
			if !ok || !strings.Contains(stt.Tag(fa.Field), `mapstructure:"encrypt_all"`) {
				return
			}
			n++
			guarded := false
			for _, blk := range fn.Blocks {
				iff := core.IfOf(blk)
				if iff == nil {
					continue
				}
				cmp, ok := iff.Cond.(*ssa.BinOp)
				if !ok {
					continue
				}
				x, y, op := cmp.X, cmp.Y, cmp.Op
				if _, _, isLen := core.LenOf(core.StripConv(y)); isLen {
					x, y = y, x
					switch op {
					case token.GTR:
						op = token.LSS
					case token.LSS:
						op = token.GTR
					case token.GEQ:
						op = token.LEQ
					case token.LEQ:
						op = token.GEQ
					}
				}
				if _, _, isLen := core.LenOf(core.StripConv(x)); !isLen {
					continue
				}
				k, isC := core.ConstInt(y)
				if !isC {
					continue
				}
				// the edge on which len > 0 is known
				var edge *bool
				t, f := true, false
				switch {
				case op == token.GTR && k >= 0, op == token.GEQ && k >= 1, op == token.NEQ && k == 0:
					edge = &t
				case op == token.EQL && k == 0, op == token.LEQ && k <= 0, op == token.LSS && k <= 1:
					edge = &f
				}
				if edge != nil && core.GuardedBy(iff, *edge, st) {
					guarded = true
				}
			}
			c.Check(guarded, fmt.Sprintf("store#%d@%s", n, core.FuncName(fn)), p.Pos(st.Pos()), core.FuncName(fn), "encrypt_all is turned off only where the attribute list is known to be non-empty",
				"encrypt_all is set to false on a path on which the attribute list may be empty: with the default configuration (no list) the processor then obfuscates nothing at all — every string goes out in clear text, with no error")
		})
	}
	if n == 0 {
		c.Undecided("anchor", "?", "", "no store that turns encrypt_all off found")
	}
}

func init() {
	register("C17", &core.Rule{ID: "C17.13", Title: "encrypt_all is turned off only under a test that the configured attribute list is non-empty", Mod: core.ModObf, Floor: 1, Run: c17_13})
}
