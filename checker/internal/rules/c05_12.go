package rules

import (
	"fmt"
	"go/types"
	"strings"

	"golang.org/x/tools/go/ssa"

	"otelcheck/internal/core"
)

// C05.12 / C06.8 pass-through integrity. The functions that merely forward —
// every implementation of the batch interface's export method, and the
// exported Consume* methods of the processor — hand their own request and
// context to exactly one downstream call on every path and return that call's
// error unchanged. A forwarder that drops the error tells every waiting caller
// "success" for a failed export (C06); one that forwards something else than
// its argument delivers other content (C05).

func forwarders(a *cbpAnchors) []*ssa.Function {
	var out []*ssa.Function
	p := a.p
	for _, impl := range a.batchImpls {
		if f := p.Func(core.CBPPath, impl.Obj().Name(), a.mExport.Name()); f != nil {
			out = append(out, f)
		}
	}
	// exported methods of package types with signature (ctx, pdata) error that contain exactly one call
	for _, fn := range p.FuncsIn(func(pp string) bool { return pp == core.CBPPath }) {
		if fn.Parent() != nil || fn.Synthetic != "" || fn.Signature.Recv() == nil || !fn.Object().Exported() {
			continue
		}
		sig := fn.Signature
		if sig.Params().Len() != 2 || sig.Results().Len() != 1 || !isCtx(sig.Params().At(0).Type()) || !isErr(sig.Results().At(0).Type()) || !isPdataType(sig.Params().At(1).Type()) {
			continue
		}
		out = append(out, fn)
	}
	return out
}

func c05_12(c *core.Ctx, p *core.Prog) {
	a := newCBPAnchors(p)
	if len(a.errs) > 0 || a.mExport == nil {
		c.Undecided("anchors", "?", "", fmt.Sprintf("batch interface not resolved: %v", a.errs))
		return
	}
	// A forwarder whose one downstream call resolves statically to a package function that is
	// not an interface implementation (the worker behind the batcher/batch interfaces) has
	// merely delegated the forwarding: the helper is a forwarder too and is held to the same
	// clauses (a helper that swallows the error on one path tells the caller "success").
	work := forwarders(a)
	seen := map[*ssa.Function]bool{}
	for _, f := range work {
		seen[f] = true
	}
	for len(work) > 0 {
		fn := work[0]
		work = work[1:]
		key := "fn=" + core.FuncName(fn)
		// the downstream call: a call taking a context and returning exactly an error
		var down []*ssa.Call
		core.EachInstr(fn, func(i ssa.Instruction) {
			cl, ok := i.(*ssa.Call)
			if !ok {
				return
			}
			sig := cl.Call.Signature()
			if sig.Results().Len() == 1 && isErr(sig.Results().At(0).Type()) && sig.Params().Len() >= 2 && isCtx(sig.Params().At(0).Type()) {
				down = append(down, cl)
			}
		})
		if len(down) != 1 {
			c.Viol(key, p.Pos(fn.Pos()), core.FuncName(fn), fmt.Sprintf("%s no longer forwards to exactly one downstream call (%d found): the request is dropped, duplicated or sent conditionally", fn.Name(), len(down)))
			continue
		}
		d := down[0]
		if sc := d.Call.StaticCallee(); sc != nil && sc.Blocks != nil && core.FnPkgPath(sc) == core.CBPPath && !seen[sc] && !implementsPkgIface(a, sc) && len(seen) < 32 {
			seen[sc] = true
			work = append(work, sc)
		}
		var msgs []string
		// every return hands back the downstream error itself
		for _, r := range core.Returns(fn) {
			if c.Property != "C06" && c.Property != "C10" {
				break
			}
			if len(r.Results) != 1 || core.Strip(r.Results[0]) != ssa.Value(d) {
				msgs = append(msgs, fmt.Sprintf("the return at %s does not return the downstream call's error unchanged (an export failure or a refusal is reported to the caller as something else, e.g. success)", p.Pos(r.Pos())))
			}
		}
		// the downstream call is on every path
		if ok, _ := (core.PathQuery{Fn: fn, Avoid: func(i ssa.Instruction) bool { return i == ssa.Instruction(d) }, ExitReturnOnly: true}).Exists(); ok {
			msgs = append(msgs, "a return is reachable without the downstream call")
		}
		// arguments: the context parameter and the request parameter (possibly type-asserted)
		args := d.Call.Args
		if d.Call.IsInvoke() {
			args = append([]ssa.Value{d.Call.Value}, args...)
		}
		fromParam := func(v ssa.Value, pr *ssa.Parameter) bool {
			return core.DerivesFrom(v, func(x ssa.Value) bool { return x == ssa.Value(pr) })
		}
		var ctxArg, reqArg ssa.Value
		for _, x := range args {
			switch {
			case isCtx(x.Type()) && ctxArg == nil:
				ctxArg = x
			case isPdataType(x.Type()) || isAny(x.Type()):
				reqArg = x
			}
		}
		// the forwarder's own context and request parameters, by type (a delegated helper may be a package function)
		var ctxParam, reqParam *ssa.Parameter
		for i, pr := range fn.Params {
			if i == 0 && fn.Signature.Recv() != nil {
				continue
			}
			switch {
			case isCtx(pr.Type()) && ctxParam == nil:
				ctxParam = pr
			case (isPdataType(pr.Type()) || isAny(pr.Type())) && reqParam == nil:
				reqParam = pr
			}
		}
		if ctxParam != nil && reqParam != nil {
			if c.Property == "C18" && (ctxArg == nil || !fromParam(ctxArg, ctxParam)) {
				msgs = append(msgs, "the downstream call does not receive this call's context")
			}
			if c.Property != "C05" {
				// the request clause belongs to C05
			} else if reqArg == nil || !fromParam(reqArg, reqParam) {
				msgs = append(msgs, "the downstream call does not receive this call's request")
			} else {
				// and from nothing else that carries telemetry: no pdata constructor in its slice
				if core.DerivesFrom(reqArg, func(x ssa.Value) bool {
					cl, ok := x.(*ssa.Call)
					if !ok {
						return false
					}
					f := core.CalleeObj(cl)
					return f != nil && f.Pkg() != nil && strings.HasPrefix(f.Pkg().Path(), core.PdataPath) && strings.HasPrefix(f.Name(), "New")
				}) {
					msgs = append(msgs, "the forwarded request derives from a freshly created pdata value")
				}
			}
		}
		c.Check(len(msgs) == 0, key, p.Pos(d.Pos()), core.FuncName(fn), "forwards its own context and request to one downstream call on every path and returns that call's error unchanged", joinMsgs(msgs))
	}
}

// implementsPkgIface: fn is a method that implements a method of an interface declared in the
// batch processor's package (the batcher behind Consume*, the batch behind export): the worker
// a forwarder hands over to, not a forwarder itself.
func implementsPkgIface(a *cbpAnchors, fn *ssa.Function) bool {
	recv := fn.Signature.Recv()
	if recv == nil || a.pkg == nil {
		return false
	}
	for _, m := range a.pkg.Members {
		t, ok := m.(*ssa.Type)
		if !ok {
			continue
		}
		it, ok := t.Type().Underlying().(*types.Interface)
		if !ok {
			continue
		}
		for i := 0; i < it.NumMethods(); i++ {
			if it.Method(i).Name() == fn.Name() && types.Implements(recv.Type(), it) {
				return true
			}
		}
	}
	return false
}

func joinMsgs(m []string) string {
	s := ""
	for i, x := range m {
		if i > 0 {
			s += "; "
		}
		s += x
	}
	return s
}

func init() {
	register("C05", &core.Rule{ID: "C05.12", Title: "forwarders (export, Consume*) pass their own request on every path", Mod: core.ModCBP, Floor: 6, Run: c05_12})
	register("C06", &core.Rule{ID: "C06.8", Title: "forwarders (export, Consume*) return the downstream error unchanged", Mod: core.ModCBP, Floor: 6, Run: c05_12})
	register("C10", &core.Rule{ID: "C10.8", Title: "forwarders (Consume*, export and the helpers they delegate to) return the downstream error unchanged: a refusal reaches the caller", Mod: core.ModCBP, Floor: 6, Run: c05_12})
	register("C18", &core.Rule{ID: "C18.8", Title: "forwarders (export, Consume*) pass on the context they were given (the one C18.2 selected)", Mod: core.ModCBP, Floor: 6, Run: c05_12})
}
