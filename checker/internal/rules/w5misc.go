package rules

import (
	"fmt"
	"go/token"
	"go/types"
	"strings"

	"golang.org/x/tools/go/ssa"

	"otelcheck/internal/core"
)

// ---- C16.5: no append onto a package-level slice ----
//
// `append(G, x)` with G a package-level slice writes x into G's backing array
// whenever G has spare capacity (a slice made with a capacity hint, or one
// that was itself the result of an append): every instance then writes its own
// value into the same slot — a data race, and one instance can run with the
// value of another (the consumer's IPC reader opened with another consumer's
// allocator and memory limit).  The result being a new slice header does not
// help.  Reported wherever the result is not stored back into G itself.
func c16_5(c *core.Ctx, p *core.Prog) {
	for _, fn := range rootFuncs(c, p) {
		if fn.Synthetic != "" || isInitFn(fn) {
			continue
		}
		k := 0
		core.EachInstr(fn, func(i ssa.Instruction) {
			cl, ok := i.(*ssa.Call)
			if !ok {
				return
			}
			b, ok := cl.Call.Value.(*ssa.Builtin)
			if !ok || b.Name() != "append" || len(cl.Call.Args) < 2 {
				return
			}
			u, ok := core.Strip(cl.Call.Args[0]).(*ssa.UnOp)
			if !ok || u.Op != token.MUL {
				return
			}
			g, ok := u.X.(*ssa.Global)
			if !ok || g.Pkg == nil || !(core.InRepo(g.Pkg.Pkg.Path()) || core.IsCanaryPath(g.Pkg.Pkg.Path())) {
				return
			}
			k++
			storedBack := false
			for _, r := range core.Referrers(cl) {
				if st, ok := r.(*ssa.Store); ok && st.Addr == ssa.Value(g) {
					storedBack = true
				}
			}
			key := fmt.Sprintf("append|fn=%s|var=%s#%d", core.FuncName(fn), g.Name(), k)
			c.Check(storedBack, key, p.Pos(cl.Pos()), core.FuncName(fn),
				"the package-level slice is extended in place (judged by C16.1 as a write)",
				"append onto the package-level slice "+g.Name()+" whose result is kept locally: when the slice has spare capacity the new element is written into the backing array shared by every instance — a data race, and an instance can pick up the element another instance has just written (e.g. another consumer's allocator and memory limit)")
		})
	}
}

const c16_5Canary = `package c

var opts = append(make([]int, 0, 3), 1, 2)

// BadAppendLocal extends the shared slice into a local.
func BadAppendLocal(x int) int {
	local := append(opts, x)
	return len(local)
}

var table = []int{1, 2}

// GoodCopyFirst copies before extending.
func GoodCopyFirst(x int) int {
	local := append(append([]int(nil), table...), x)
	return len(local)
}

// GoodStoredBack extends the variable itself (a plain write, judged elsewhere).
func GoodStoredBack(x int) {
	table = append(table, x)
}
`

// ---- C13.10: the configured dictionary limit is what the options set ----
//
// The limit a caller configures (config.Config.LimitIndexSize, and the other
// dictionary settings) is written by the option functions of the config package
// and by nothing else: a "consistency" adjustment in the producer's constructor
// (raise the limit to the initial size) silently replaces a limit of 255 by
// 65535.
func c13_10(c *core.Ctx, p *core.Prog) {
	n := 0
	cfgPkg := core.RepoPath + "/pkg/config"
	for _, fn := range rootFuncs(c, p) {
		if fn.Synthetic != "" {
			continue
		}
		core.EachInstr(fn, func(i ssa.Instruction) {
			st, ok := i.(*ssa.Store)
			if !ok {
				return
			}
			fa, ok := st.Addr.(*ssa.FieldAddr)
			if !ok {
				return
			}
			nn := core.NamedOf(fa.X.Type())
			if nn == nil || nn.Obj().Pkg() == nil || nn.Obj().Pkg().Path() != cfgPkg || nn.Obj().Name() != "Config" {
				return
			}
			fv := core.FieldVar(fa)
			if fv == nil || !(strings.Contains(fv.Name(), "Index") || strings.Contains(fv.Name(), "Dict") || strings.Contains(fv.Name(), "Limit")) {
				return
			}
			n++
			inCfg := core.FnPkgPath(fn) == cfgPkg
			c.Check(inCfg, fmt.Sprintf("write|%s@%s#%d", fv.Name(), core.FuncName(fn), n), p.Pos(st.Pos()), core.FuncName(fn),
				"written by the config package (defaults and options)",
				"the dictionary setting "+fv.Name()+" is overwritten outside the config package's defaults and options: the limit the caller configured is not the one the record builders get (e.g. a limit below the initial index size silently raised to it, so a uint8 limit becomes 65535)")
		})
	}
	if n < 4 {
		c.Undecided("writes", "?", "", fmt.Sprintf("only %d writes of dictionary settings found: the configuration struct is not resolved", n))
	}
}

// ---- C13.11: every schema-update event counts ----
//
// The record builder hands out a record only when no schema update is pending
// (C13.1), and "pending" is the counter that SchemaUpdateRequest.Inc advances.
// Inc must advance it on every path: an event kind that is recorded but not
// counted (a dictionary reset "does not change the schema") lets the record that
// went over the limit out.
func c13_11(c *core.Ctx, p *core.Prog) {
	n := 0
	for _, fn := range p.FuncsIn(func(pp string) bool { return strings.HasSuffix(pp, "/schema/update") }) {
		if fn.Name() != "Inc" || fn.Signature.Recv() == nil {
			continue
		}
		n++
		isCount := func(i ssa.Instruction) bool {
			st, ok := i.(*ssa.Store)
			if !ok {
				return false
			}
			fa, ok := st.Addr.(*ssa.FieldAddr)
			if !ok {
				return false
			}
			if b, _ := intBits(core.FieldVar(fa).Type()); b == 0 {
				return false
			}
			add, ok := st.Val.(*ssa.BinOp)
			return ok && add.Op == token.ADD
		}
		skip, _ := (core.PathQuery{Fn: fn, Avoid: isCount, ExitReturnOnly: true}).Exists()
		c.Check(!skip, "inc|fn="+core.FuncName(fn), p.Pos(fn.Pos()), core.FuncName(fn),
			"every recorded event advances the pending-update counter",
			"Inc can return without advancing the pending-update counter (an event kind that is recorded but not counted): the record builder then sees no pending update and hands out the record that triggered the event — for a dictionary reset, the record whose dictionary went over the limit")
	}
	if n == 0 {
		c.Undecided("inc", "?", "", "SchemaUpdateRequest.Inc not found")
	}
}

// ---- C07.14: a main record that RelatedDataFrom may not have found is tested before use ----
//
// Each signal's RelatedDataFrom returns the main record as a separate result,
// nil when the batch carries none (payload dropped or relabelled).  The caller
// may use it only under a nil test of that very value; "the batch is not
// empty" is not that test.
// ---- C07.18: no decode succeeds without the records having been sorted ----
//
// The scan of the consumed records (RelatedDataFrom) is what finds the main record wherever it sits, rejects unknown
// and duplicated payloads and hands every related record to its store. A success return of a *From decoder that is
// reachable from Consume without passing that scan — an "empty batch" fast path that looks at the first record only —
// reports a batch as decoded although none of it was looked at: a batch whose main record is not first comes back as
// zero telemetry with a nil error.
func c07_18(c *core.Ctx, p *core.Prog) {
	n := 0
	sorts := func(i ssa.Instruction) bool {
		cl, ok := i.(*ssa.Call)
		if !ok {
			return false
		}
		sig := cl.Call.Signature()
		in, out, hasErr := false, false, false
		for k := 0; k < sig.Params().Len(); k++ {
			if isRecordMsgSlice(sig.Params().At(k).Type()) {
				in = true
			}
		}
		for k := 0; k < sig.Results().Len(); k++ {
			t := sig.Results().At(k).Type()
			if pt, ok := t.(*types.Pointer); ok && core.TypeName(pt.Elem()) == "RecordMessage" {
				out = true
			}
			if isErr(t) {
				hasErr = true
			}
		}
		return in && out && hasErr
	}
	hasSort := func(f *ssa.Function) bool {
		found := false
		core.EachInstr(f, func(i ssa.Instruction) {
			if sorts(i) {
				found = true
			}
		})
		return found
	}
	for _, from := range methodsOf(p, pkgArrowRecord, "Consumer", "TracesFrom", "LogsFrom", "MetricsFrom") {
		if d := delegateOf(p, from, hasSort); d != nil {
			from = d
		}
		// the call that yields the records: a call returning ([]*RecordMessage, error)
		var consume ssa.Instruction
		core.EachInstr(from, func(i ssa.Instruction) {
			cl, ok := i.(*ssa.Call)
			if !ok || consume != nil {
				return
			}
			res := cl.Call.Signature().Results()
			if res.Len() == 2 && isRecordMsgSlice(res.At(0).Type()) && isErr(res.At(1).Type()) {
				consume = i
			}
		})
		key := "sorted|fn=" + core.FuncName(from)
		if consume == nil {
			if !hasSort(from) {
				c.Undecided(key, p.Pos(from.Pos()), core.FuncName(from), "neither the call that yields the records nor the scan of them found")
			}
			// the records are a parameter of the delegate: every success return passes the scan from entry
			consume = from.Blocks[0].Instrs[0]
		}
		n++
		bad := ""
		for _, r := range core.Returns(from) {
			k := len(r.Results) - 1
			if k < 0 || !isErr(r.Results[k].Type()) || !core.IsNilConst(core.ResultValue(r, k)) {
				continue
			}
			if ok, _ := (core.PathQuery{Fn: from, From: consume, To: r, Avoid: sorts}).Exists(); ok {
				bad = p.Pos(r.Pos())
			}
		}
		c.Check(bad == "", key, p.Pos(consume.Pos()), core.FuncName(from), "every success return is reached through the scan of the consumed records",
			"the success return at "+bad+" can be reached without the consumed records having been scanned (sorted into main record and related data): a batch is reported as decoded with a nil error although its payloads were never looked at — a batch whose main record is not the first payload yields no telemetry and no error")
	}
	if n == 0 {
		c.Undecided("sorted", "?", "", "no *From decoder found")
	}
}

func c07_14(c *core.Ctx, p *core.Prog) {
	n := 0
	// the call that sorts the records into related data and the main record: by its shape
	// ([]*RecordMessage in; a *RecordMessage and an error among the results), whether it is called
	// by name or through a function-valued parameter of a shared helper
	sorts := func(cl *ssa.Call) bool {
		sig := cl.Call.Signature()
		in, out, hasErr := false, false, false
		for k := 0; k < sig.Params().Len(); k++ {
			if isRecordMsgSlice(sig.Params().At(k).Type()) {
				in = true
			}
		}
		for k := 0; k < sig.Results().Len(); k++ {
			t := sig.Results().At(k).Type()
			if pt, ok := t.(*types.Pointer); ok && core.TypeName(pt.Elem()) == "RecordMessage" {
				out = true
			}
			if isErr(t) {
				hasErr = true
			}
		}
		return in && out && hasErr
	}
	hasSort := func(f *ssa.Function) bool {
		found := false
		core.EachInstr(f, func(i ssa.Instruction) {
			if cl, ok := i.(*ssa.Call); ok && sorts(cl) {
				found = true
			}
		})
		return found
	}
	for _, from := range methodsOf(p, pkgArrowRecord, "Consumer", "TracesFrom", "LogsFrom", "MetricsFrom") {
		if d := delegateOf(p, from, hasSort); d != nil {
			from = d
		}
		from := from
		core.EachInstr(from, func(i ssa.Instruction) {
			cl, ok := i.(*ssa.Call)
			if !ok || !sorts(cl) {
				return
			}
			// the *RecordMessage result
			for _, r := range core.Referrers(cl) {
				ex, ok := r.(*ssa.Extract)
				if !ok {
					continue
				}
				pt, ok := ex.Type().(*types.Pointer)
				if !ok || core.TypeName(pt.Elem()) != "RecordMessage" {
					continue
				}
				n++
				key := fmt.Sprintf("main|fn=%s", core.FuncName(from))
				bad := ""
				for _, u := range core.Referrers(ex) {
					uc, ok := u.(*ssa.Call)
					if !ok || len(uc.Call.Args) == 0 || uc.Call.Args[0] != ssa.Value(ex) {
						continue
					}
					guarded := false
					for _, b := range from.Blocks {
						iff := core.IfOf(b)
						if iff == nil {
							continue
						}
						cmp, ok := iff.Cond.(*ssa.BinOp)
						if !ok || !core.IsNilConst(cmp.Y) || cmp.X != ssa.Value(ex) {
							continue
						}
						if core.GuardedBy(iff, cmp.Op == token.NEQ, uc) {
							guarded = true
						}
					}
					if !guarded {
						bad = p.Pos(uc.Pos())
					}
				}
				c.Check(bad == "", key, p.Pos(cl.Pos()), core.FuncName(from),
					"the main record is used only under a nil test of itself",
					"the main record returned by RelatedDataFrom is used at "+bad+" without a nil test of that value: a batch whose main payload was dropped or relabelled (related payloads still present) makes the consumer dereference nil")
			}
		})
	}
	if n < 3 {
		c.Undecided("main", "?", "", fmt.Sprintf("expected the main-record result of RelatedDataFrom in 3 decoders, found %d", n))
	}
}

func init() {
	register("C16", &core.Rule{ID: "C16.5", Title: "no append onto a package-level slice kept locally (spare capacity makes it a write into the shared backing array)", Mod: core.ModRoot, Floor: 0, Run: c16_5, Canary: c16_5Canary})
	register("C13", &core.Rule{ID: "C13.10", Title: "the dictionary settings are written by the config package's defaults and options only", Mod: core.ModRoot, Floor: 4, Run: c13_10})
	register("C04", &core.Rule{ID: "C04.13", Title: "the dictionary settings are written by the config package's defaults and options only", Mod: core.ModRoot, Floor: 4, Run: c13_10})
	register("C13", &core.Rule{ID: "C13.11", Title: "every recorded schema-update event advances the pending-update counter", Mod: core.ModRoot, Floor: 1, Run: c13_11})
	register("C07", &core.Rule{ID: "C07.18", Title: "every success return of a *From decoder is reached through the scan of the consumed records", Mod: core.ModRoot, Floor: 3, Run: c07_18})
	register("C07", &core.Rule{ID: "C07.14", Title: "the main record RelatedDataFrom may not have found is used only under a nil test of itself", Mod: core.ModRoot, Floor: 3, Run: c07_14})
}
