package rules

import (
	"fmt"
	"go/types"
	"sort"
	"strings"

	"golang.org/x/tools/go/ssa"

	"otelcheck/internal/core"
)

// RT.25 optimizers are stateless across batches. The per-signal optimizers
// flatten and sort one batch; whatever they remember from one call to the next
// (a memo of the last input and result, a cache keyed by the pdata handle) can
// answer a later batch with an earlier batch's rows, because pdata handles
// compare by identity, not content. Outside their constructors no field of an
// *Optimizer type is written.
func rt_25(c *core.Ctx, p *core.Prog) {
	reach := encodeReach(p)
	found := map[*types.Named]bool{}
	writes := map[*types.Named][]string{}
	for _, fn := range sortedFuncs(p, reach) {
		if !encPkg(core.FnPkgPath(fn)) {
			continue
		}
		if fn.Signature.Recv() != nil {
			if n := core.NamedOf(fn.Signature.Recv().Type()); n != nil && strings.HasSuffix(n.Obj().Name(), "Optimizer") {
				found[n] = true
			}
		}
		fn := fn
		core.EachInstr(fn, func(i ssa.Instruction) {
			st, ok := i.(*ssa.Store)
			if !ok {
				return
			}
			fa, ok := st.Addr.(*ssa.FieldAddr)
			if !ok {
				return
			}
			n := core.NamedOf(fa.X.Type())
			if n == nil || !strings.HasSuffix(n.Obj().Name(), "Optimizer") || !core.InRepo(n.Obj().Pkg().Path()) {
				return
			}
			found[n] = true
			base := fa.X
			if _, fresh := base.(*ssa.Alloc); fresh {
				return // construction
			}
			writes[n] = append(writes[n], fmt.Sprintf("%s at %s (%s)", core.FieldName(fa), p.Pos(st.Pos()), fn.Name()))
		})
	}
	var ts []*types.Named
	for t := range found {
		ts = append(ts, t)
	}
	sort.Slice(ts, func(i, j int) bool { return ts[i].Obj().Name() < ts[j].Obj().Name() })
	for _, t := range ts {
		w := writes[t]
		sort.Strings(w)
		c.Check(len(w) == 0, "type="+t.Obj().Name(), p.Pos(t.Obj().Pos()), t.Obj().Name(),
			t.Obj().Name()+" has no field written after construction",
			fmt.Sprintf("%s remembers something from one call to the next (%s): a later batch can be answered with the rows of an earlier one (pdata handles compare by identity, so the same buffer re-filled and re-sent looks unchanged)", t.Obj().Name(), strings.Join(w, "; ")))
	}
}

func init() {
	for _, prop := range []string{"C01", "C02", "C03"} {
		register(prop, &core.Rule{ID: "RT.25", Title: "optimizers are stateless across batches (no field written after construction)", Mod: core.ModRoot, Floor: 1, Run: rt_25})
	}
}
