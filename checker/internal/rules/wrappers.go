package rules

import (
	"fmt"
	"go/token"
	"go/types"
	"sort"
	"strings"

	"golang.org/x/tools/go/ssa"

	"otelcheck/internal/core"
)

// wrapperSummary describes one value-appending method of a schema/builder
// wrapper (DESIGN 2.5, "wrapper summary").
type wrapperSummary struct {
	fn        *ssa.Function
	typ       string // wrapper type name
	method    string
	nParams   int
	nullOn    string // never | zero | other        (non-nil half: when a null is stored)
	updateOn  string // always | nonzero | never | other   (nil half: when the column is requested)
	minAppend int
	maxAppend int
	isNull    bool // the wrapper's own AppendNull
}

func (w *wrapperSummary) nullFreeAlwaysUpdating() bool {
	return w.nullOn == "never" && w.updateOn == "always"
}

// builderField returns the `builder` field (arrow builder) of a wrapper type: the field whose type is an arrow array builder (interface or pointer).
func wrapperBuilderField(n *types.Named) *types.Var {
	st, ok := n.Underlying().(*types.Struct)
	if !ok {
		return nil
	}
	for k := 0; k < st.NumFields(); k++ {
		f := st.Field(k)
		if core.TypePkgPath(f.Type()) == arrowArray {
			return f
		}
	}
	return nil
}

// isZeroTestOf: cond tests param v against its zero value; returns (true when the TRUE edge means "v is zero", ok).
func zeroTestOf(cond ssa.Value, v ssa.Value) (zeroOnTrue bool, ok bool) {
	switch x := cond.(type) {
	case *ssa.BinOp:
		a, b := x.X, x.Y
		isZero := func(z ssa.Value) bool {
			if core.IsNilConst(z) {
				return true
			}
			if c, ok := z.(*ssa.Const); ok && c.Value != nil {
				s := c.Value.ExactString()
				return s == "0" || s == `""` || s == "false"
			}
			return false
		}
		derives := func(u ssa.Value) bool {
			u = core.StripConv(u)
			if u == v {
				return true
			}
			// len(v) == 0
			if cl, ok := u.(*ssa.Call); ok {
				if bi, ok := cl.Call.Value.(*ssa.Builtin); ok && bi.Name() == "len" && cl.Call.Args[0] == v {
					return true
				}
			}
			return false
		}
		var other ssa.Value
		switch {
		case derives(a) && isZero(b):
			other = b
		case derives(b) && isZero(a):
			other = a
		default:
			return false, false
		}
		_ = other
		switch x.Op {
		case token.EQL:
			return true, true
		case token.NEQ, token.GTR:
			return false, true
		}
	case *ssa.UnOp:
		if x.Op == token.NOT {
			z, ok := zeroTestOf(x.X, v)
			return !z, ok
		}
	}
	// bool parameter used directly: `if value {`
	if cond == v && isBool(v.Type()) {
		return false, true
	}
	return false, false
}

func summariseWrappers(p *core.Prog) []*wrapperSummary {
	var out []*wrapperSummary
	for _, fn := range p.FuncsIn(func(pp string) bool { return pp == pkgBuilder }) {
		if fn.Parent() != nil || fn.Signature.Recv() == nil || !strings.HasPrefix(fn.Name(), "Append") {
			continue
		}
		recv := core.NamedOf(fn.Signature.Recv().Type())
		if recv == nil {
			continue
		}
		bf := wrapperBuilderField(recv)
		if bf == nil {
			continue
		}
		w := &wrapperSummary{fn: fn, typ: recv.Obj().Name(), method: fn.Name(), nParams: fn.Signature.Params().Len()}
		// the nil test on the builder field
		var nilIf *ssa.If
		nonNilOnTrue := true
		for _, b := range fn.Blocks {
			iff := core.IfOf(b)
			if iff == nil {
				continue
			}
			cmp, ok := iff.Cond.(*ssa.BinOp)
			if !ok || !core.IsNilConst(cmp.Y) || !isFieldLoad(cmp.X, bf) {
				continue
			}
			if nilIf == nil {
				nilIf = iff
				nonNilOnTrue = cmp.Op == token.NEQ
			}
		}
		if nilIf == nil {
			continue
		}
		var val ssa.Value
		if len(fn.Params) >= 2 {
			val = fn.Params[1]
		}
		// appends to the underlying arrow builder in the non-nil half
		direct := func(i ssa.Instruction) (string, bool) {
			cl, ok := i.(ssa.CallInstruction)
			if !ok {
				return "", false
			}
			f := core.CalleeObj(cl)
			if f == nil || f.Pkg() == nil || f.Pkg().Path() != arrowArray || !strings.HasPrefix(f.Name(), "Append") && !strings.HasPrefix(f.Name(), "Unsafe") {
				return "", false
			}
			return f.Name(), true
		}
		isUnder := func(i ssa.Instruction) (string, bool) {
			cl, ok := i.(ssa.CallInstruction)
			if !ok {
				return "", false
			}
			f := core.CalleeObj(cl)
			// a helper method of the same wrapper that appends exactly once on every path to its return (the
			// type switch over the underlying builder factored out of Append / AppendNonZero) is one append
			// … or a (generic) package function of the builder package handed the underlying builder
			if h := cl.Common().StaticCallee(); h != nil && h != fn && fn.Signature.Recv() != nil && len(h.Blocks) > 0 &&
				(h.Signature.Recv() != nil && types.Identical(h.Signature.Recv().Type(), fn.Signature.Recv().Type()) ||
					h.Signature.Recv() == nil && core.FnPkgPath(h) == pkgBuilder) {
				hasAppend := false
				core.EachInstr(h, func(j ssa.Instruction) {
					if _, ok := direct(j); ok {
						hasAppend = true
					}
				})
				if hasAppend {
					mn, mx := pathCounts(h, h.Blocks[0], func(j ssa.Instruction) bool { _, ok := direct(j); return ok })
					if mn == 1 && mx == 1 {
						name := "AppendNull"
						core.EachInstr(h, func(j ssa.Instruction) {
							if n, ok := direct(j); ok && n != "AppendNull" {
								name = n
							}
						})
						return name, true
					}
				}
			}
			if f == nil || f.Pkg() == nil || f.Pkg().Path() != arrowArray || !strings.HasPrefix(f.Name(), "Append") && !strings.HasPrefix(f.Name(), "Unsafe") {
				return "", false
			}
			if f.Name() == "AppendValues" || f.Name() == "AppendEmptyValue" {
				return f.Name(), true
			}
			return f.Name(), true
		}
		nulls, nullsGuarded := 0, 0
		core.EachInstr(fn, func(i ssa.Instruction) {
			name, ok := isUnder(i)
			if !ok || !core.GuardedBy(nilIf, nonNilOnTrue, i) {
				return
			}
			if name == "AppendNull" {
				nulls++
				if val != nil {
					for _, b := range fn.Blocks {
						iff := core.IfOf(b)
						if iff == nil || iff == nilIf {
							continue
						}
						if zt, ok := zeroTestOf(iff.Cond, val); ok && core.GuardedBy(iff, zt, i) {
							nullsGuarded++
							break
						}
					}
				}
			}
		})
		switch {
		case nulls == 0:
			w.nullOn = "never"
		case nulls == nullsGuarded:
			w.nullOn = "zero"
		default:
			w.nullOn = "other"
		}
		if val == nil {
			w.isNull = nulls > 0
		}
		// per-path append counts in the non-nil half: paths from the non-nil edge to a return
		nonNilTo := nilIf.Block().Succs[0]
		if !nonNilOnTrue {
			nonNilTo = nilIf.Block().Succs[1]
		}
		w.minAppend, w.maxAppend = pathCounts(fn, nonNilTo, func(i ssa.Instruction) bool {
			_, ok := isUnder(i)
			return ok
		})
		// the update request in the nil half
		incs, incsGuarded := 0, 0
		core.EachInstr(fn, func(i ssa.Instruction) {
			cl, ok := i.(*ssa.Call)
			if !ok || !requestsColumn(cl, 0) || core.GuardedBy(nilIf, nonNilOnTrue, cl) {
				return
			}
			incs++
			if val != nil {
				for _, b := range fn.Blocks {
					iff := core.IfOf(b)
					if iff == nil || iff == nilIf {
						continue
					}
					if zt, ok := zeroTestOf(iff.Cond, val); ok && core.GuardedBy(iff, !zt, cl) {
						incsGuarded++
						break
					}
				}
			}
		})
		switch {
		case incs == 0:
			w.updateOn = "never"
		case incsGuarded == 0:
			w.updateOn = "always"
		case incsGuarded == incs:
			w.updateOn = "nonzero"
		default:
			w.updateOn = "other"
		}
		out = append(out, w)
	}
	sort.Slice(out, func(i, j int) bool { return out[i].typ+out[i].method < out[j].typ+out[j].method })
	return out
}

func (w *wrapperSummary) String() string {
	return fmt.Sprintf("%s.%s nullOn=%s updateOn=%s appends=[%d,%d]", w.typ, w.method, w.nullOn, w.updateOn, w.minAppend, w.maxAppend)
}

// pathCounts: minimum and maximum number of event instructions on a path from
// the start of block `from` to a return of fn (maximum capped at 2; loops are
// traversed at most twice).
func pathCounts(fn *ssa.Function, from *ssa.BasicBlock, isEvent func(ssa.Instruction) bool) (int, int) {
	gen := map[*ssa.BasicBlock]int{}
	for _, b := range fn.Blocks {
		for _, i := range b.Instrs {
			if isEvent(i) {
				gen[b]++
			}
		}
	}
	mn, mx := 1<<20, -1
	onPath := map[*ssa.BasicBlock]int{}
	var walk func(b *ssa.BasicBlock, n, depth int)
	walk = func(b *ssa.BasicBlock, n, depth int) {
		if depth > 300 || onPath[b] > 1 {
			return
		}
		n += gen[b]
		if n > 2 {
			n = 2
		}
		last := b.Instrs[len(b.Instrs)-1]
		if _, ok := last.(*ssa.Return); ok {
			if n < mn {
				mn = n
			}
			if n > mx {
				mx = n
			}
			return
		}
		onPath[b]++
		for _, s := range b.Succs {
			walk(s, n, depth+1)
		}
		onPath[b]--
	}
	walk(from, 0, 0)
	if mx < 0 {
		return 0, 0
	}
	return mn, mx
}

// requestsColumn: the call is the schema-update request of an optional column (`Inc` on the update
// request), or a call of a builder-package helper that makes it (the request factored out of the
// wrappers, e.g. into a method of an embedded struct).
func requestsColumn(cl ssa.CallInstruction, depth int) bool {
	if o := core.CalleeObj(cl); o != nil && o.Name() == "Inc" {
		return true
	}
	h := cl.Common().StaticCallee()
	if h == nil || len(h.Blocks) == 0 || depth > 2 || core.FnPkgPath(h) != pkgBuilder {
		return false
	}
	found := false
	core.EachCall(h, func(ci ssa.CallInstruction) {
		if !found && requestsColumn(ci, depth+1) {
			found = true
		}
	})
	return found
}
