package rules

import (
	"fmt"
	"go/ast"
	"go/types"
	"sort"
	"strings"

	"golang.org/x/tools/go/ssa"

	"otelcheck/internal/core"
)

// C07.11 — reader/writer agreement on dictionary value types.
//
// Several typed accessors of pkg/arrow decode a dictionary-encoded column with
// an unchecked type assertion on the dictionary's values,
//
//	case *array.Dictionary:
//	    vals := arr.Dictionary().(*array.Uint32)   // panics on any other value type
//
// which is safe only as long as every dictionary-encoded column that can reach
// that accessor holds values of exactly that type.  Under payload relabelling
// (C07's domain) a record produced for one payload type is decoded by the code
// of another; columns are looked up by name, so the columns that can reach an
// accessor call are all the columns, of any payload schema, carrying the name
// the call site looks up.
//
// Rule: for every call of such an accessor in the decoders, resolve the column
// name(s) of the id argument (origin engine, col:name tokens) and the set of
// schema fields of that name that are declared dictionary-encodable in any
// schema literal of the repository (arrow.Field{Name, Type, Metadata:
// schema.Metadata(… Dictionary8|Dictionary16 …)}).  Each of them must declare
// the value type the accessor asserts.  The writer's table is read from the
// schema literals, the reader's from the accessor's code; the rule decides
// their agreement, nothing about the decoded values.

type dictField struct {
	name, typ, pos string
}

// schemaDictFields lists the dictionary-encodable fields of every arrow.Field
// literal in the repository (non-test files are all that is loaded).
func schemaDictFields(p *core.Prog) (out []dictField, total int) {
	var paths []string
	for path := range p.ByPath {
		if core.InRepo(path) && !core.IsCanaryPath(path) {
			paths = append(paths, path)
		}
	}
	sort.Strings(paths)
	for _, path := range paths {
		pk := p.ByPath[path]
		for _, f := range pk.Syntax {
			ast.Inspect(f, func(n ast.Node) bool {
				cl, ok := n.(*ast.CompositeLit)
				if !ok {
					return true
				}
				tv, ok := pk.TypesInfo.Types[cl]
				if !ok || core.TypePkgPath(tv.Type) != pkgApacheArrow || core.TypeName(tv.Type) != "Field" {
					return true
				}
				total++
				var name, typ string
				dict := false
				for _, el := range cl.Elts {
					kv, ok := el.(*ast.KeyValueExpr)
					if !ok {
						continue
					}
					k, _ := kv.Key.(*ast.Ident)
					if k == nil {
						continue
					}
					switch k.Name {
					case "Name":
						if v, ok := pk.TypesInfo.Types[kv.Value]; ok && v.Value != nil {
							name = strings.Trim(v.Value.ExactString(), `"`)
						}
					case "Type":
						typ = arrowTypeName(pk.TypesInfo, kv.Value)
					case "Metadata":
						ast.Inspect(kv.Value, func(m ast.Node) bool {
							if id, ok := m.(*ast.Ident); ok && strings.HasPrefix(id.Name, "Dictionary") {
								if o := pk.TypesInfo.Uses[id]; o != nil && o.Pkg() != nil && strings.HasSuffix(o.Pkg().Path(), "/common/schema") {
									dict = true
								}
							}
							return true
						})
					}
				}
				if dict {
					out = append(out, dictField{name: name, typ: typ, pos: p.Pos(cl.Pos())})
				}
				return true
			})
		}
	}
	return out, total
}

const pkgApacheArrow = "github.com/apache/arrow-go/v18/arrow"

// arrowTypeName maps the Type expression of a schema field to the name of the
// array type that holds its values ("Uint32", "String", …); "?"+expr when the
// expression is not one of the repository's idioms.
func arrowTypeName(info *types.Info, e ast.Expr) string {
	s := types.ExprString(e)
	if i := strings.LastIndex(s, "."); i >= 0 {
		last := s[i+1:]
		switch {
		case strings.Contains(s, "PrimitiveTypes."), strings.Contains(s, "BinaryTypes."):
			return last
		case strings.Contains(s, "FixedWidthTypes."):
			if j := strings.Index(last, "_"); j > 0 {
				last = last[:j]
			}
			return last
		}
	}
	if tv, ok := info.Types[e]; ok {
		n := core.TypeName(tv.Type)
		if strings.HasSuffix(n, "Type") && core.TypePkgPath(tv.Type) == pkgApacheArrow {
			return strings.TrimSuffix(n, "Type")
		}
	}
	return "?" + s
}

// uncheckedDictAssert: the accessor asserts the dictionary's values to *array.V without the comma-ok form.
func uncheckedDictAssert(fn *ssa.Function) (vals []string, pos []string, p0 *ssa.TypeAssert) {
	core.EachInstr(fn, func(i ssa.Instruction) {
		ta, ok := i.(*ssa.TypeAssert)
		if !ok || ta.CommaOk {
			return
		}
		fromDict := core.DerivesFrom(ta.X, func(v ssa.Value) bool {
			cl, ok := v.(*ssa.Call)
			if !ok {
				return false
			}
			f := core.CalleeObj(cl)
			return f != nil && f.Name() == "Dictionary" && core.RecvNamed(f) != nil && core.RecvNamed(f).Obj().Name() == "Dictionary"
		})
		if !fromDict {
			return
		}
		vals = append(vals, core.TypeName(ta.AssertedType))
		if p0 == nil {
			p0 = ta
		}
	})
	return
}

func c07_11(c *core.Ctx, p *core.Prog) {
	fields, total := schemaDictFields(p)
	c.Stats["C07.11 arrow.Field literals read"] = total
	c.Stats["C07.11 dictionary-encodable schema fields"] = len(fields)
	if len(fields) < 40 {
		c.Undecided("schema", "?", "", fmt.Sprintf("only %d dictionary-encodable schema fields found (40+ confirmed by hand): the schema literals are not being read", len(fields)))
		return
	}
	byName := map[string][]dictField{}
	for _, f := range fields {
		if strings.HasPrefix(f.typ, "?") {
			c.Undecided("schema|field="+f.name, f.pos, "", "value type of this dictionary-encodable schema field not recognised: "+f.typ)
			continue
		}
		byName[f.name] = append(byName[f.name], f)
	}
	decReach := repoReach(p, p.CHA(), consumerEntries(p))
	canary := p.FuncsIn(func(pp string) bool { return core.IsCanaryPath(pp) && c.InScope(pp) })
	all := map[*ssa.Function]bool{}
	for f := range decReach {
		all[f] = true
	}
	for _, f := range canary {
		all[f] = true
	}
	e := newOriginEngine(p, p.CHA(), all)
	// accessors with an unchecked assertion
	type acc struct {
		vals []string
		at   string
	}
	accs := map[*ssa.Function]acc{}
	for _, fn := range p.FuncsIn(func(pp string) bool { return pp == pkgArrowUtils || (core.IsCanaryPath(pp) && c.InScope(pp)) }) {
		if vals, _, ta := uncheckedDictAssert(fn); ta != nil {
			accs[fn] = acc{vals: vals, at: p.Pos(ta.Pos())}
		}
	}
	c.Stats["C07.11 accessors with an unchecked dictionary-value assertion"] = len(accs)
	fns := sortedFuncs(p, decReach)
	fns = append(fns, canary...)
	for _, fn := range fns {
		if fn.Synthetic != "" || accs[fn].vals != nil {
			continue
		}
		k := 0
		core.EachInstr(fn, func(i ssa.Instruction) {
			cl, ok := i.(*ssa.Call)
			if !ok {
				return
			}
			g := cl.Call.StaticCallee()
			a, ok := accs[g]
			if g == nil || !ok {
				return
			}
			// the id argument: the int parameter named like a field id
			var idArg ssa.Value
			for j, prm := range g.Params {
				if basicKind(prm.Type()) == types.Int && strings.Contains(strings.ToLower(prm.Name()), "id") && j < len(cl.Call.Args) {
					idArg = cl.Call.Args[j]
					break
				}
			}
			if idArg == nil {
				return // array-based accessor: the column is not looked up by name here
			}
			k++
			key := fmt.Sprintf("dictvals|fn=%s|accessor=%s|#%d", core.FuncName(fn), g.Name(), k)
			pos := p.Pos(cl.Pos())
			names := e.tokens(idArg).with("col:")
			if len(names) == 0 {
				c.Undecided(key, pos, core.FuncName(fn), "column name of the id passed to "+g.Name()+" not resolved")
				return
			}
			var bad []string
			nDict := 0
			for _, n := range names {
				for _, f := range byName[n] {
					nDict++
					match := false
					for _, v := range a.vals {
						if v == f.typ {
							match = true
						}
					}
					if !match {
						bad = append(bad, fmt.Sprintf("%q is declared dictionary<%s> at %s", n, f.typ, f.pos))
					}
				}
			}
			if len(bad) > 0 {
				c.Viol(key, pos, core.FuncName(fn), fmt.Sprintf("%s asserts the dictionary values to *array.%s without a check (%s), but a column this call looks up by name can arrive with other values when a payload is relabelled: %s — the consumer panics instead of returning an error",
					g.Name(), strings.Join(a.vals, "/"), a.at, strings.Join(bad, "; ")))
				return
			}
			c.OK(key, pos, core.FuncName(fn), fmt.Sprintf("column(s) %s: every dictionary-encodable schema field of that name (%d) declares the value type %s asserts (*array.%s)", strings.Join(names, ","), nDict, g.Name(), strings.Join(a.vals, "/")))
		})
	}
}

func init() {
	register("C07", &core.Rule{ID: "C07.11", Title: "unchecked dictionary-value assertions of the typed accessors agree with every schema field of the looked-up name (relabelled payloads must yield an error, not a panic)", Mod: core.ModRoot, Floor: 15, Run: c07_11, Canary: c07_11Canary})
}

const c07_11Canary = `package c

import (
	"github.com/apache/arrow-go/v18/arrow"
	"github.com/apache/arrow-go/v18/arrow/array"

	arrowutils "github.com/open-telemetry/otel-arrow/pkg/arrow"
	"github.com/open-telemetry/otel-arrow/pkg/otel/constants"
)

// U16 has a dictionary arm that trusts the value type.
func U16(record arrow.Record, fieldID int, row int) uint16 {
	switch arr := record.Column(fieldID).(type) {
	case *array.Uint16:
		return arr.Value(row)
	case *array.Dictionary:
		return arr.Dictionary().(*array.Uint16).Value(arr.GetValueIndex(row))
	}
	return 0
}

// U32 likewise for uint32.
func U32(record arrow.Record, fieldID int, row int) uint32 {
	switch arr := record.Column(fieldID).(type) {
	case *array.Uint32:
		return arr.Value(row)
	case *array.Dictionary:
		return arr.Dictionary().(*array.Uint32).Value(arr.GetValueIndex(row))
	}
	return 0
}

// BadParent16 reads parent_id, which the 32-bit attribute records declare dictionary<uint32>.
func BadParent16(record arrow.Record) uint16 {
	id, _ := arrowutils.FieldIDFromSchema(record.Schema(), constants.ParentID)
	return U16(record, id, 0)
}

// GoodParent32 reads it with the matching accessor.
func GoodParent32(record arrow.Record) uint32 {
	id, _ := arrowutils.FieldIDFromSchema(record.Schema(), constants.ParentID)
	return U32(record, id, 0)
}
`
