package rules

import (
	"fmt"
	"go/token"

	"golang.org/x/tools/go/ssa"

	"otelcheck/internal/core"
)

// C07.20 — a column taken out of a record by type assertion is used only where the assertion was seen to hold.
//
// What a payload *says* it is and what it carries are independent under the property's faults (payloads relabelled or
// dropped): a column looked up by id can have any Arrow type. `col, _ := record.Column(id).(*array.Uint16)` leaves col
// nil for a column of another type, and the first `col.IsNull(row)` is a nil dereference inside the consumer.
// Rule: on the decode path, for every comma-ok assertion of an Arrow array value to a concrete array type, each use of
// the asserted value is guarded by the ok result (or by a nil test of the value itself).
func c07_20(c *core.Ctx, p *core.Prog) {
	reach := repoReach(p, p.CHA(), consumerEntries(p))
	n := 0
	seenOrigin := map[*ssa.Function]bool{}
	for _, fn := range sortedFuncs(p, reach) {
		if (fn.Synthetic != "" && fn.Origin() == nil) || !core.InRepo(core.FnPkgPath(fn)) {
			continue
		}
		if o := fn.Origin(); o != nil {
			if seenOrigin[o] {
				continue
			}
			seenOrigin[o] = true
		}
		fn := fn
		k := 0
		core.EachInstr(fn, func(i ssa.Instruction) {
			ta, ok := i.(*ssa.TypeAssert)
			if !ok || !ta.CommaOk || core.TypePkgPath(ta.AssertedType) == "" || !isArrowArrayType(ta) {
				return
			}
			var val, okEx *ssa.Extract
			for _, r := range core.Referrers(ta) {
				if ex, isEx := r.(*ssa.Extract); isEx {
					if ex.Index == 0 {
						val = ex
					} else {
						okEx = ex
					}
				}
			}
			if val == nil {
				return
			}
			k++
			n++
			key := fmt.Sprintf("fn=%s|assert#%d", core.FuncName(fn), k)
			bad := ""
			// the value as it flows on through φ-nodes (`var col *T; if present { col, _ = x.(*T) }`)
			aliases := []ssa.Value{val}
			for d := 0; d < 2; d++ {
				for _, a := range aliases {
					for _, r := range core.Referrers(a) {
						if ph, isPhi := r.(*ssa.Phi); isPhi {
							dup := false
							for _, b := range aliases {
								if b == ssa.Value(ph) {
									dup = true
								}
							}
							if !dup {
								aliases = append(aliases, ph)
							}
						}
					}
				}
			}
			var uses []ssa.Instruction
			useOf := map[ssa.Instruction]ssa.Value{}
			for _, a := range aliases {
				for _, r := range core.Referrers(a) {
					uses = append(uses, r)
					useOf[r] = a
				}
			}
			for _, u := range uses {
				switch x := u.(type) {
				case *ssa.DebugRef, *ssa.Phi, *ssa.Return, *ssa.Store, *ssa.MakeInterface:
					continue
				case *ssa.BinOp:
					if core.IsNilConst(x.X) || core.IsNilConst(x.Y) {
						continue
					}
				}
				guarded := false
				for _, b := range fn.Blocks {
					iff := core.IfOf(b)
					if iff == nil {
						continue
					}
					if okEx != nil && iff.Cond == ssa.Value(okEx) && core.GuardedBy(iff, true, u) {
						guarded = true
					}
					if un, isNot := iff.Cond.(*ssa.UnOp); isNot && un.Op == token.NOT && okEx != nil && un.X == ssa.Value(okEx) && core.GuardedBy(iff, false, u) {
						guarded = true
					}
					if cmp, isCmp := iff.Cond.(*ssa.BinOp); isCmp && (cmp.X == ssa.Value(val) || cmp.X == useOf[u]) && core.IsNilConst(cmp.Y) {
						if (cmp.Op == token.NEQ && core.GuardedBy(iff, true, u)) || (cmp.Op == token.EQL && core.GuardedBy(iff, false, u)) {
							guarded = true
						}
					}
				}
				if !guarded {
					bad = p.Pos(u.Pos())
				}
			}
			c.Check(bad == "", key, p.Pos(ta.Pos()), core.FuncName(fn), "the asserted column is used only where the assertion held",
				"the column asserted to "+core.TypeName(ta.AssertedType)+" is used at "+bad+" without the ok result (or a nil test) guarding the use: for a column of another Arrow type — a payload relabelled as this one — the value is nil and the consumer panics instead of returning an error")
		})
	}
	c.Stats["C07.20 comma-ok column assertions on the decode path"] = n
}

func isArrowArrayType(ta *ssa.TypeAssert) bool {
	pp := core.TypePkgPath(ta.AssertedType)
	return len(pp) >= len(core.ArrowPath) && pp[:len(core.ArrowPath)] == core.ArrowPath && core.TypePkgPath(ta.X.Type()) != "" 
}

func init() {
	register("C07", &core.Rule{ID: "C07.20", Title: "a column taken out of a record by comma-ok assertion is used only where the assertion held", Mod: core.ModRoot, Floor: 45, Run: c07_20})
}
