package rules

import (
	"fmt"
	"go/token"
	"os"
	"strings"

	"golang.org/x/tools/go/ssa"

	"otelcheck/internal/core"
)

// RT.20 restores are not conditional on foreign data. A decoder call
// T.SetF(v) may be guarded by error tests, by nil tests of a value v itself
// derives from (nullable columns, optional structs), by loop and id-change
// conditions (integer comparisons) and by one-of discriminators; it must not be
// guarded by the nil test of a pointer that has nothing to do with v (e.g. "an
// attribute map was found"), because then the field is restored only for rows
// that happen to have that other data.
func rt_20(c *core.Ctx, p *core.Prog) {
	decReach := repoReach(p, p.CHA(), consumerEntries(p))
	n := 0
	for _, fn := range sortedFuncs(p, decReach) {
		if fn.Synthetic != "" || !strings.Contains(core.FnPkgPath(fn), "/otlp") {
			continue
		}
		// nil tests in fn
		type nilIf struct {
			iff     *ssa.If
			ptr     ssa.Value
			nonNilT bool
		}
		var tests []nilIf
		for _, b := range fn.Blocks {
			iff := core.IfOf(b)
			if iff == nil {
				continue
			}
			bo, ok := iff.Cond.(*ssa.BinOp)
			if !ok || !core.IsNilConst(bo.Y) || isErrorType(bo.X.Type()) {
				continue
			}
			if bo.Op != token.NEQ && bo.Op != token.EQL {
				continue
			}
			// a precondition: the nil arm is a failure exit (returns a fresh / sentinel error)
			nilArm := b.Succs[0]
			if bo.Op == token.NEQ {
				nilArm = b.Succs[1]
			}
			if len(nilArm.Instrs) > 0 {
				if r, ok := nilArm.Instrs[len(nilArm.Instrs)-1].(*ssa.Return); ok && failReturn(r) {
					continue
				}
			}
			tests = append(tests, nilIf{iff, bo.X, bo.Op == token.NEQ})
		}
		seen := map[string]int{}
		core.EachInstr(fn, func(i ssa.Instruction) {
			ci, ok := i.(*ssa.Call)
			if !ok {
				return
			}
			f := pdataCallee(ci)
			if f == nil || !strings.HasPrefix(f.Name(), "Set") || strings.HasPrefix(f.Name(), "SetEmpty") {
				return
			}
			args := core.CallArgs(ci)
			if len(args) != 1 {
				return
			}
			n++
			k := core.RecvNamed(f).Obj().Name() + "." + f.Name()
			seen[k]++
			key := fmt.Sprintf("fn=%s|set=%s", core.FuncName(fn), k)
			if seen[k] > 1 {
				key += fmt.Sprintf("#%d", seen[k])
			}
			var foreign []string
			for _, t := range tests {
				if !(core.GuardedBy(t.iff, t.nonNilT, ci)) {
					continue
				}
				// own-value guard: the tested pointer is in the slice of the argument or of the receiver
				own := false
				canonP := core.Canon(t.ptr)
				chk := func(x ssa.Value) bool {
					return x == t.ptr || core.Canon(x) == canonP || core.SameValue(x, t.ptr)
				}
				if core.DerivesFrom(args[0], chk) {
					own = true
				}
				if recv := core.CallRecv(ci); recv != nil && !own && core.DerivesFrom(recv, chk) {
					own = true
				}
				// the argument is read from the tested pointer (struct array holding the column)
				if !own {
					own = core.DerivesFrom(args[0], func(x ssa.Value) bool {
						cl, ok := x.(*ssa.Call)
						if !ok {
							return false
						}
						for _, a := range cl.Call.Args {
							if chk(a) {
								return true
							}
						}
						return false
					})
				}
				if !own {
					foreign = append(foreign, fmt.Sprintf("%s (%s)", valueLabel(t.ptr), p.Pos(t.iff.Pos())))
				}
			}
			// optional fields (T.HasF exists): presence is carried by non-nil alone; a zero test on the value drops present-but-zero
			if methodOf(core.RecvNamed(f).Obj().Type(), "Has"+strings.TrimPrefix(f.Name(), "Set")) != nil {
				for _, b := range fn.Blocks {
					iff := core.IfOf(b)
					if iff == nil {
						continue
					}
					subj, zeroOnTrue, ok := zeroCond(iff.Cond)
					if !ok || !core.GuardedBy(iff, !zeroOnTrue, ci) {
						continue
					}
					sv := subj
					if core.DerivesFrom(args[0], func(x ssa.Value) bool { return x == sv || core.SameValue(x, sv) }) || core.DerivesFrom(subj, func(x ssa.Value) bool {
						return core.DerivesFrom(args[0], func(y ssa.Value) bool { return y == x && !isConst(x) })
					}) {
						foreign = append(foreign, fmt.Sprintf("a non-zero test of the value itself (%s)", p.Pos(iff.Pos())))
					}
				}
			}
			if os.Getenv("OTELCHECK_DEBUG") != "" && len(foreign) > 0 {
				fmt.Println("RT.20", key, foreign)
			}
			c.Check(len(foreign) == 0, key, p.Pos(ci.Pos()), core.FuncName(fn),
				"restored unconditionally or under guards on its own value",
				fmt.Sprintf("%s is restored only under %s — a condition that is not the presence of the value itself: rows without that other data (or with a present zero) lose the field", k, strings.Join(foreign, ", ")))
		})
	}
	c.Stats["RT.20 setter calls"] = n
}

func init() {
	for _, prop := range []string{"C01", "C02", "C03"} {
		register(prop, &core.Rule{ID: "RT.20", Title: "restores are not conditional on foreign data: a decoder setter is guarded only by tests on its own value", Mod: core.ModRoot, Floor: 10, FloorBy: map[string]int{"C01": 20, "C02": 10, "C03": 40}, Run: rt_20})
	}
}

func isConst(v ssa.Value) bool { _, ok := v.(*ssa.Const); return ok }
