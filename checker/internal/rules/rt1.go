package rules

import (
	"go/token"
	"go/types"
	"sort"
	"strings"

	"golang.org/x/tools/go/ssa"

	"otelcheck/internal/core"
)

// RT.1 data-model completeness. The set of data-model fields of a signal is
// derived from the pdata method sets (nothing is listed by hand): starting at
// the signal's root type, every message type reachable through niladic getters
// and At(i) is an entity; its fields are
//   scalar      F() with SetF(v)
//   optional    F() with SetF(v) and HasF()
//   oneof       F() with SetEmptyF()
//   container   F() returning a pdata container/sub-message (no setter)
// Encode obligation: some function reachable from the producer entry point of
// the signal reads the field (calls T.F).  Decode obligation: some function
// reachable from the consumer entry point writes it (T.SetF / T.SetEmptyF, or
// T.F() for containers, which are filled in place).
// The rule decides that no field is forgotten on either side; that the value
// read is the value written is RT.3.

type dmField struct {
	typ    *types.Named
	name   string
	kind   string // scalar | optional | oneof | container
	result types.Type
}

func pdataNamed(t types.Type) *types.Named {
	if pt, ok := t.(*types.Pointer); ok {
		t = pt.Elem()
	}
	n, _ := t.(*types.Named)
	if n == nil || !isPdataType(n) {
		return nil
	}
	return n
}

// dmFieldsOf lists the data-model fields of pdata message type T.
func dmFieldsOf(T *types.Named) []dmField {
	var out []dmField
	ms := types.NewMethodSet(T)
	for i := 0; i < ms.Len(); i++ {
		f := ms.At(i).Obj().(*types.Func)
		if !f.Exported() {
			continue
		}
		sig := f.Type().(*types.Signature)
		name := f.Name()
		if sig.Params().Len() != 0 || sig.Results().Len() != 1 {
			continue
		}
		rt := sig.Results().At(0).Type()
		if isMutatorName(name) {
			continue
		}
		switch {
		case methodOf(T, "Set"+name) != nil:
			k := "scalar"
			if methodOf(T, "Has"+name) != nil {
				k = "optional"
			}
			out = append(out, dmField{T, name, k, rt})
		case methodOf(T, "SetEmpty"+name) != nil:
			out = append(out, dmField{T, name, "oneof", rt})
		case pdataNamed(rt) != nil && (methodOf(rt, "CopyTo") != nil || methodOf(rt, "MoveTo") != nil):
			out = append(out, dmField{T, name, "container", rt})
		}
	}
	sort.Slice(out, func(i, j int) bool { return out[i].name < out[j].name })
	return out
}

func isMutatorName(name string) bool {
	for _, pre := range []string{"Set", "Put", "Append", "Remove", "Move", "Copy", "Ensure", "From", "As", "New"} {
		if strings.HasPrefix(name, pre) && len(name) > len(pre) && name[len(pre)] >= 'A' && name[len(pre)] <= 'Z' {
			return true
		}
	}
	return false
}

// dmEntities: message types reachable from root (slices are traversed through At).
func dmEntities(root *types.Named) []*types.Named {
	seen := map[*types.Named]bool{}
	var order []*types.Named
	var walk func(t *types.Named)
	walk = func(t *types.Named) {
		if t == nil || seen[t] {
			return
		}
		seen[t] = true
		// generic value containers are handled by the attribute / any-value codecs
		switch t.Obj().Name() {
		case "Map", "Value", "Slice", "TraceState", "Timestamp", "TraceID", "SpanID", "ByteSlice":
			return
		}
		if at := methodOf(t, "At"); at != nil {
			walk(pdataNamed(at.Type().(*types.Signature).Results().At(0).Type()))
			return
		}
		if _, ok := t.Underlying().(*types.Struct); !ok {
			return
		}
		fs := dmFieldsOf(t)
		if len(fs) == 0 {
			return
		}
		order = append(order, t)
		for _, f := range fs {
			walk(pdataNamed(f.result))
		}
	}
	walk(root)
	return order
}

type dmUse struct {
	fn  *ssa.Function
	pos token.Pos
}

// pdataUses collects, over the functions in reach, the pdata methods called: "Type.Method" → first use.
func pdataUses(p *core.Prog, reach map[*ssa.Function]bool) map[string]dmUse {
	out := map[string]dmUse{}
	for _, fn := range sortedFuncs(p, reach) {
		fn := fn
		core.EachInstr(fn, func(i ssa.Instruction) {
			var f *types.Func
			switch i := i.(type) {
			case ssa.CallInstruction:
				f = pdataCallee(i)
			case *ssa.MakeClosure:
				// a method value x.M handed on as a function: the bound
				// wrapper calls M on x and nothing else.
				f = boundPdataMethod(i)
			}
			if f == nil {
				return
			}
			k := core.RecvNamed(f).Obj().Name() + "." + f.Name()
			if _, ok := out[k]; !ok {
				out[k] = dmUse{fn, i.Pos()}
			}
		})
	}
	return out
}

// boundPdataMethod returns M when mc is the method value x.M of a pdata type.
func boundPdataMethod(mc *ssa.MakeClosure) *types.Func {
	w, _ := mc.Fn.(*ssa.Function)
	if w == nil || !strings.HasPrefix(w.Synthetic, "bound method wrapper") {
		return nil
	}
	f, _ := w.Object().(*types.Func)
	if f == nil {
		return nil
	}
	n := core.RecvNamed(f)
	if n == nil || n.Obj().Pkg() == nil || !strings.HasPrefix(n.Obj().Pkg().Path(), core.PdataPath) {
		return nil
	}
	return f
}

type dmSignal struct {
	prop, name, pdataPkg, root string
	enc, dec                   string
	floor, floor3              int
}

var dmSignals = []dmSignal{
	{"C01", "traces", "ptrace", "Traces", "BatchArrowRecordsFromTraces", "TracesFrom", 35, 20},
	{"C02", "logs", "plog", "Logs", "BatchArrowRecordsFromLogs", "LogsFrom", 20, 12},
	{"C03", "metrics", "pmetric", "Metrics", "BatchArrowRecordsFromMetrics", "MetricsFrom", 70, 45},
}

func dmRoot(p *core.Prog, sig dmSignal) *types.Named {
	if pkg := p.Pkg(core.PdataPath + "/" + sig.pdataPkg); pkg != nil && pkg.Types != nil {
		if o := pkg.Types.Scope().Lookup(sig.root); o != nil {
			n, _ := o.Type().(*types.Named)
			return n
		}
	}
	return nil
}

func rt_1(sig dmSignal) func(c *core.Ctx, p *core.Prog) {
	return func(c *core.Ctx, p *core.Prog) {
		rootT := dmRoot(p, sig)
		encRoots := methodsOf(p, pkgArrowRecord, "Producer", sig.enc)
		decRoots := methodsOf(p, pkgArrowRecord, "Consumer", sig.dec)
		if rootT == nil || len(encRoots) == 0 || len(decRoots) == 0 {
			c.Undecided("anchors|"+sig.name, "", "", "pdata root type or producer/consumer entry point not found")
			return
		}
		enc := pdataUses(p, repoReach(p, p.CHA(), encRoots))
		dec := pdataUses(p, repoReach(p, p.CHA(), decRoots))
		ents := dmEntities(rootT)
		c.Stats["RT.1 entities "+sig.name] = len(ents)
		nf := 0
		var outside []string
		for _, T := range ents {
			tn := T.Obj().Name()
			for _, f := range dmFieldsOf(T) {
				nf++
				u, okE := enc[tn+"."+f.name]
				var w dmUse
				okD := false
				var how string
				switch f.kind {
				case "scalar", "optional":
					w, okD = dec[tn+".Set"+f.name]
					how = "Set" + f.name
				case "oneof":
					w, okD = dec[tn+".SetEmpty"+f.name]
					how = "SetEmpty" + f.name
				default:
					w, okD = dec[tn+"."+f.name]
					how = f.name + "() (filled in place)"
				}
				key := sig.name + "|" + tn + "." + f.name
				switch {
				case !okE && !okD:
					// neither side knows the field: it has no column in the Arrow data model, which the
					// property's domain excludes ("only fields that exist in the Arrow data model are compared")
					outside = append(outside, tn+"."+f.name)
					c.InfoOb(key, p.Pos(encRoots[0].Pos()), encRoots[0].String(), tn+"."+f.name+" is handled by neither the encoder nor the decoder: no column in the Arrow data model (outside the property's domain)")
				case okE && okD:
					c.OK(key, p.Pos(u.pos), u.fn.String(), "the "+sig.name+" encoder reads "+tn+"."+f.name+"() and the decoder writes "+tn+"."+how+" ("+f.kind+")")
				case okE:
					c.Viol(key, p.Pos(u.pos), u.fn.String(), "the "+sig.name+" encoder reads "+tn+"."+f.name+"() but no function reachable from Consumer."+sig.dec+" calls "+tn+"."+how+": this "+f.kind+" data-model field is never restored by the decoder")
				default:
					c.Viol(key, p.Pos(w.pos), w.fn.String(), "the "+sig.name+" decoder writes "+tn+"."+how+" but no function reachable from Producer."+sig.enc+" reads "+tn+"."+f.name+"(): this "+f.kind+" data-model field is never encoded, the decoder restores a default")
				}
			}
		}
		sort.Strings(outside)
		c.Note("RT.1 %s: pdata fields with no column on either side (outside the Arrow data model, not compared by the property): %s", sig.name, strings.Join(outside, ", "))
		c.Stats["RT.1 fields "+sig.name] = nf
		var names []string
		for _, T := range ents {
			names = append(names, T.Obj().Name())
		}
		c.Note("RT.1 %s: entities derived from pdata method sets: %s", sig.name, strings.Join(names, ", "))
	}
}

func init() {
	for _, s := range dmSignals {
		register(s.prop, &core.Rule{ID: "RT.1", Title: "data-model agreement: every field of every " + s.name + " message type that one side handles is handled by the other (read by the encoder, written by the decoder)", Mod: core.ModRoot, Floor: s.floor, Run: rt_1(s)})
	}
}
