package rules

import (
	"fmt"
	"go/token"
	"go/types"
	"sort"
	"strings"

	"golang.org/x/tools/go/ssa"

	"otelcheck/internal/core"
)

// RT.15: a column written as null on a "nothing to encode" test is null only
// when every value its non-null sibling append carries has been tested zero.
// RT.16: an id column is null only when nothing is accumulated under that id,
// and the id counter advances whenever the id is written.

// zeroTested: the SSA values tested "zero / empty" on every path to ins:
//   S == 0 | S == "" | S.Len() == 0 | S.IsEmpty()     (edge taken when true)
//   S != 0 | S > 0 | S.Len() > 0 | !S.IsEmpty()       (edge taken when false)
// Returned values are the tested S (for Len/IsEmpty: the receiver).
func zeroTested(fn *ssa.Function, ins ssa.Instruction) []ssa.Value {
	var out []ssa.Value
	for _, b := range fn.Blocks {
		iff := core.IfOf(b)
		if iff == nil {
			continue
		}
		s, zeroOnTrue, ok := zeroCond(iff.Cond)
		if !ok {
			continue
		}
		if core.GuardedBy(iff, zeroOnTrue, ins) {
			out = append(out, s)
		}
	}
	return out
}

func zeroCond(cond ssa.Value) (subject ssa.Value, zeroOnTrue bool, ok bool) {
	switch x := cond.(type) {
	case *ssa.UnOp:
		if x.Op == token.NOT {
			s, z, ok := zeroCond(x.X)
			return s, !z, ok
		}
	case *ssa.Call:
		// S.IsEmpty()
		if f := core.CalleeObj(x); f != nil && f.Name() == "IsEmpty" && len(x.Call.Args) == 1 {
			return x.Call.Args[0], true, true
		}
	case *ssa.BinOp:
		isZero := func(z ssa.Value) bool {
			if c, ok := z.(*ssa.Const); ok && c.Value != nil {
				s := c.Value.ExactString()
				return s == "0" || s == `""`
			}
			return false
		}
		var subj ssa.Value
		switch {
		case isZero(x.Y):
			subj = x.X
		case isZero(x.X):
			subj = x.Y
		default:
			return nil, false, false
		}
		if n := core.NamedOf(subj.Type()); n != nil && len(enumAllConsts(n)) >= 2 {
			return nil, false, false // an arm of an enumeration switch (one-of encoding), not a zero test
		}
		subj = core.StripConv(subj)
		// S.Len() → S
		if cl, ok := subj.(*ssa.Call); ok {
			if f := core.CalleeObj(cl); f != nil && f.Name() == "Len" && len(cl.Call.Args) == 1 {
				subj = cl.Call.Args[0]
			} else if bi, ok := cl.Call.Value.(*ssa.Builtin); ok && bi.Name() == "len" {
				subj = cl.Call.Args[0]
			}
		}
		switch x.Op {
		case token.EQL:
			return subj, true, true
		case token.NEQ, token.GTR:
			if x.Op == token.GTR && !isZero(x.Y) {
				return nil, false, false
			}
			return subj, false, true
		}
	}
	return nil, false, false
}

// samePdataRead: a and b denote the same pure read: identical canonical values, or
// the same pdata getter chain over the same canonical root.
func samePdataRead(a, b ssa.Value, depth int) bool {
	a, b = core.Canon(core.StripConv(a)), core.Canon(core.StripConv(b))
	if a == b || core.SameValue(a, b) || core.StructEq(a, b, 0) {
		return true
	}
	if depth > 6 {
		return false
	}
	ca, ok1 := a.(*ssa.Call)
	cb, ok2 := b.(*ssa.Call)
	if ok1 && ok2 {
		fa, fb := core.CalleeObj(ca), core.CalleeObj(cb)
		if fa == nil || fa != fb || len(ca.Call.Args) != len(cb.Call.Args) {
			return false
		}
		if pdataCallee(ca) == nil {
			return false
		}
		for i := range ca.Call.Args {
			if !samePdataRead(ca.Call.Args[i], cb.Call.Args[i], depth+1) {
				return false
			}
		}
		return true
	}
	return false
}

// derivesFromRead: v's backward slice contains a value that is the same read as g.
func derivesFromRead(v, g ssa.Value) bool {
	found := false
	core.BackSlice(v, func(x ssa.Value) bool {
		if found {
			return false
		}
		if samePdataRead(x, g, 0) {
			found = true
			return false
		}
		return true
	})
	if !found {
		// through single-assignment locals
		cv := core.Canon(v)
		if cv != v {
			return derivesFromRead(cv, g)
		}
	}
	return found
}

func rt_15(c *core.Ctx, p *core.Prog) {
	reach := encodeReach(p)
	fns := sortedFuncs(p, reach)
	fns = append(fns, p.FuncsIn(func(pp string) bool { return core.IsCanaryPath(pp) && c.InScope(pp) })...)
	n := 0
	for _, fn := range fns {
		pp := core.FnPkgPath(fn)
		if !(encPkg(pp) || (core.IsCanaryPath(pp) && c.InScope(pp))) || fn.Synthetic != "" {
			continue
		}
		// null calls and value calls per column field
		type site struct {
			call ssa.CallInstruction
			name string
		}
		byField := map[*types.Var][]site{}
		core.EachInstr(fn, func(i ssa.Instruction) {
			if fv := appendEvent(i); fv != nil {
				ci := i.(ssa.CallInstruction)
				byField[fv] = append(byField[fv], site{ci, core.CalleeObj(ci).Name()})
			}
		})
		var fields []*types.Var
		for k := range byField {
			fields = append(fields, k)
		}
		sort.Slice(fields, func(i, j int) bool { return fields[i].Name() < fields[j].Name() })
		for _, f := range fields {
			var nulls, vals []site
			for _, s := range byField[f] {
				if s.name == "AppendNull" {
					nulls = append(nulls, s)
				} else {
					vals = append(vals, s)
				}
			}
			if len(nulls) == 0 || len(vals) == 0 {
				continue
			}
			for ni, N := range nulls {
				tested := zeroTested(fn, N.call)
				if len(tested) == 0 {
					continue // presence / one-of encoding, not a zero test (RT.6, RT.2)
				}
				// what the non-null siblings carry
				type feed struct {
					v   ssa.Value
					pos token.Pos
					lbl string
				}
				var feeds []feed
				idLike := false
				for _, P := range vals {
					args := core.CallArgs(P.call)
					var root ssa.Value
					for _, a := range args {
						if _, isFn := a.Type().Underlying().(*types.Signature); isFn {
							continue
						}
						if sa := core.Strip(a); isPdataType(sa.Type()) && root == nil {
							root = core.Canon(sa)
						}
						// getters in the argument's slice
						core.BackSlice(a, func(x ssa.Value) bool {
							if cl, ok := x.(*ssa.Call); ok && pdataCallee(cl) != nil && len(cl.Call.Args) == 1 {
								feeds = append(feeds, feed{cl, cl.Pos(), valueLabel(cl)})
								return false
							}
							if _, ok := x.(*ssa.Phi); ok {
								idLike = true // a loop-carried counter: an id column (RT.16)
							}
							return true
						})
					}
					// fill callbacks: every getter applied directly to the appended entity
					for _, a := range args {
						mc, ok := a.(*ssa.MakeClosure)
						if !ok || root == nil {
							continue
						}
						for _, cf := range core.WithClosures(mc.Fn.(*ssa.Function)) {
							core.EachInstr(cf, func(i ssa.Instruction) {
								cl, ok := i.(*ssa.Call)
								if !ok || pdataCallee(cl) == nil || len(cl.Call.Args) != 1 {
									return
								}
								if core.Canon(cl.Call.Args[0]) == root {
									feeds = append(feeds, feed{cl, cl.Pos(), valueLabel(cl)})
								}
							})
						}
					}
				}
				if idLike && len(feeds) == 0 {
					continue
				}
				n++
				var missing []string
				for _, fd := range feeds {
					ok := false
					for _, t := range tested {
						if derivesFromRead(t, fd.v) {
							ok = true
							break
						}
					}
					if !ok {
						missing = append(missing, fd.lbl)
					}
				}
				sort.Strings(missing)
				missing = uniq(missing)
				key := fmt.Sprintf("fn=%s|col=%s", core.FuncName(fn), f.Name())
				if ni > 0 {
					key += fmt.Sprintf("#%d", ni+1)
				}
				c.Check(len(missing) == 0, key, p.Pos(N.call.Pos()), core.FuncName(fn),
					fmt.Sprintf("column %s is written null only when every value its non-null append carries is zero/empty (%d carried reads, %d zero tests)", f.Name(), len(feeds), len(tested)),
					fmt.Sprintf("column %s is written null although %s may be non-zero: the null is guarded by zero tests that do not cover every value the non-null append carries, so that value is lost (decoded as zero)", f.Name(), strings.Join(missing, ", ")))
			}
		}
	}
	c.Stats["RT.15 zero-null sites"] = n
}

func uniq(xs []string) []string {
	var out []string
	for i, x := range xs {
		if i == 0 || x != xs[i-1] {
			out = append(out, x)
		}
	}
	return out
}

// ---------------- RT.16 ----------------

func isAccumulate(ci ssa.CallInstruction) bool {
	f := core.CalleeObj(ci)
	if f == nil || !strings.HasPrefix(f.Name(), "Append") {
		return false
	}
	n := core.RecvNamed(f)
	return n != nil && strings.HasSuffix(n.Obj().Name(), "Accumulator")
}

func rt_16(c *core.Ctx, p *core.Prog) {
	reach := encodeReach(p)
	fns := sortedFuncs(p, reach)
	fns = append(fns, p.FuncsIn(func(pp string) bool { return core.IsCanaryPath(pp) && c.InScope(pp) })...)
	n := 0
	for _, fn := range fns {
		pp := core.FnPkgPath(fn)
		if !(encPkg(pp) || (core.IsCanaryPath(pp) && c.InScope(pp))) || fn.Synthetic != "" {
			continue
		}
		byField := map[*types.Var][]ssa.CallInstruction{}
		core.EachInstr(fn, func(i ssa.Instruction) {
			if fv := appendEvent(i); fv != nil {
				byField[fv] = append(byField[fv], i.(ssa.CallInstruction))
			}
		})
		var fields []*types.Var
		for k := range byField {
			fields = append(fields, k)
		}
		sort.Slice(fields, func(i, j int) bool { return fields[i].Name() < fields[j].Name() })
		loops := loopsOf(fn)
		for _, f := range fields {
			var nulls, vals []ssa.CallInstruction
			for _, s := range byField[f] {
				if core.CalleeObj(s).Name() == "AppendNull" {
					nulls = append(nulls, s)
				} else {
					vals = append(vals, s)
				}
			}
			if len(nulls) != 1 || len(vals) != 1 {
				continue
			}
			N, P := nulls[0], vals[0]
			args := core.CallArgs(P)
			if len(args) != 1 {
				continue
			}
			id := core.StripConv(args[0])
			// the id must be accumulated under: some accumulate call takes it as its first argument
			var accs []ssa.CallInstruction
			core.EachInstr(fn, func(i ssa.Instruction) {
				ci, ok := i.(ssa.CallInstruction)
				if !ok || !isAccumulate(ci) {
					return
				}
				a := core.CallArgs(ci)
				if len(a) >= 2 && (core.StripConv(a[0]) == id || core.SameValue(core.StripConv(a[0]), id)) {
					accs = append(accs, ci)
				}
			})
			if len(accs) == 0 {
				continue
			}
			n++
			// the enclosing loop
			var header *ssa.BasicBlock
			var body map[*ssa.BasicBlock]bool
			for h, bd := range loops {
				if bd[N.Block()] && bd[P.Block()] && (body == nil || len(bd) < len(body)) {
					header, body = h, bd
				}
			}
			cut := map[core.Edge]bool{}
			if header != nil {
				for _, pr := range header.Preds {
					if body[pr] {
						cut[core.Edge{From: pr, To: header}] = true
					}
				}
			}
			// what the null path knows to be empty
			tested := zeroTested(fn, N)
			for _, b := range fn.Blocks {
				iff := core.IfOf(b)
				if iff == nil {
					continue
				}
				s, zeroOnTrue, ok := zeroCond(iff.Cond)
				if !ok {
					continue
				}
				for _, t := range tested {
					if samePdataRead(s, t, 0) {
						// the non-zero edge is infeasible on the null path
						idx := 0
						if zeroOnTrue {
							idx = 1
						}
						cut[core.Edge{From: b, To: b.Succs[idx]}] = true
					}
				}
			}
			key := fmt.Sprintf("fn=%s|id=%s", core.FuncName(fn), f.Name())
			var bad []string
			for _, A := range accs {
				if ok, _ := (core.PathQuery{Fn: fn, From: N, To: A, CutEdges: cut}).Exists(); ok {
					a := core.CallArgs(A)
					bad = append(bad, fmt.Sprintf("%s at %s", valueLabel(a[1]), p.Pos(A.Pos())))
				}
			}
			sort.Strings(bad)
			c.Check(len(bad) == 0, key+"|null", p.Pos(N.Pos()), core.FuncName(fn),
				fmt.Sprintf("id column %s is null only on paths where none of the %d accumulations under that id can happen", f.Name(), len(accs)),
				fmt.Sprintf("id column %s is written null on a path that still accumulates %s under the row's id: the row carries no id, so the decoder attaches those related records to another parent (or to none)", f.Name(), strings.Join(bad, "; ")))
			// counter advance: when the id is a loop-carried counter, every path from the id append to the end of the iteration increments it
			if phi, ok := core.Canon(id).(*ssa.Phi); ok && header != nil && phi.Block() == header {
				isInc := func(i ssa.Instruction) bool {
					bo, ok := i.(*ssa.BinOp)
					if !ok || bo.Op != token.ADD {
						return false
					}
					k, isC := core.ConstInt(bo.Y)
					return isC && k == 1 && core.StripConv(bo.X) == ssa.Value(phi)
				}
				// failure exits do not matter: cut edges taken when an error is non-nil
				cut2 := map[core.Edge]bool{}
				for _, b := range fn.Blocks {
					if fe := failEdge(b); fe >= 0 {
						cut2[core.Edge{From: b, To: b.Succs[fe]}] = true
					}
				}
				noInc, _ := (core.PathQuery{Fn: fn, From: P, To: header.Instrs[0], Avoid: isInc, CutEdges: cut2}).Exists()
				c.Check(!noInc, key+"|advance", p.Pos(P.Pos()), core.FuncName(fn),
					"the id counter advances on every path from the id append to the next row",
					"a path from the append of id column "+f.Name()+" to the next row does not advance the id counter: two parents share an id and the decoder merges their related records")
			} else if header != nil {
				// not a counter of its own: it must at least vary with the loop (derive from a loop-carried value)
				varies := core.DerivesFrom(id, func(x ssa.Value) bool {
					ph, ok := x.(*ssa.Phi)
					return ok && ph.Block() == header
				})
				c.Check(varies, key+"|advance", p.Pos(P.Pos()), core.FuncName(fn),
					"the id written derives from a loop-carried value (row index)",
					"the id written to column "+f.Name()+" does not change from row to row: every parent shares one id and the decoder merges their related records")
			}
		}
	}
	c.Stats["RT.16 id sites"] = n
}

func init() {
	for _, prop := range []string{"C01", "C03"} {
		register(prop, &core.Rule{ID: "RT.15", Title: "a column is written null on a zero test only when every value its non-null append carries was tested", Mod: core.ModRoot, Floor: 1, FloorBy: map[string]int{"C01": 1, "C03": 2}, Run: rt_15})
	}
	for _, prop := range []string{"C01", "C02", "C03"} {
		register(prop, &core.Rule{ID: "RT.16", Title: "an id column is null only when nothing is accumulated under the id; the id counter advances with every id written", Mod: core.ModRoot, Floor: 2, FloorBy: map[string]int{"C01": 5, "C02": 2, "C03": 2}, Run: rt_16})
	}
}
