#!/bin/bash
# Development tool: re-runs today's checks against every filed seed and rewrites detected_by in its meta.json.
cd /verif
for d in seeded/*/; do
  id=$(basename $d)
  python3 - "$id" <<'PY'
import json,sys,subprocess,re,os
sid=sys.argv[1]; d=f'/verif/seeded/{sid}'
m=json.load(open(d+'/meta.json'))
props=list(m['detected_by'].keys())
caught={}
for p in props:
    out=subprocess.run(['/verif/scripts/try_patch.sh',d+'/patch.diff',p],capture_output=True,text=True,errors='replace',env=dict(os.environ,LINES_MAX='40',WIDTH='300')).stdout
    rules=sorted(set(re.findall(r': (C\d+\.\d+|RT\.\d+)(?: \(undecided\))?:',out)))
    rc=re.search(r'exit=(\d)',out)
    caught[p]={'exit':int(rc.group(1)) if rc else None,'rules':rules}
m['detected_by']=caught
json.dump(m,open(d+'/meta.json','w'),indent=1)
print(sid,{p:v['rules'] for p,v in caught.items()})
PY
done
