#!/bin/bash
# Runs the repository's pinned test suite with no verification guard (the checks
# are static and need no hooks).  Same loop as /root/.vp/BASELINE.json.
set -u
export GOFLAGS=-mod=mod GOPROXY=off GOSUMDB=off GOTOOLCHAIN=local
unset GOWORK
rc=0
for m in . ./collector/cmd/otelarrowcol ./collector/processor/concurrentbatchprocessor ./collector/processor/obfuscationprocessor; do
  (cd /repo/$m && go test -mod=mod -vet=off -count=1 -timeout 25m ./...) || rc=1
done
exit $rc
