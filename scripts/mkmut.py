#!/usr/bin/env python3
"""Development tool: create a mutation patch from one textual edit of /repo.
(works on /repo directly and resets it at once) usage: mkmut.py <name> <property,...> <file relative to /repo> <old> <new> [benign]
Writes /verif/mutations/<name>.patch (or mutations/benign/) and appends to mutations/INDEX.tsv."""
import sys,subprocess,os
name,props,f,old,new=sys.argv[1:6]; benign=len(sys.argv)>6
p='/repo/'+f; s=open(p).read()
assert s.count(old)==1,(name,s.count(old))
open(p,'w').write(s.replace(old,new))
d=subprocess.check_output(['git','-C','/repo','diff'],text=True)
subprocess.check_call(['git','-C','/repo','reset','-q','--hard','HEAD'])
out='/verif/mutations/'+('benign/' if benign else '')+name+'.patch'
os.makedirs(os.path.dirname(out),exist_ok=True); open(out,'w').write(d)
idx='/verif/mutations/INDEX.tsv'
lines=[l for l in (open(idx).read().splitlines() if os.path.exists(idx) else []) if not l.startswith(name+'\t')]
lines.append(f"{name}\t{'benign' if benign else 'breaking'}\t{props}")
open(idx,'w').write('\n'.join(sorted(lines))+'\n')
print('wrote',out)
