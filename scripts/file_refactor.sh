#!/bin/bash
# Development tool: files the refactorings r1..r6 of campaign <Rid> from /tmp/wt/<Rid>-out into the corpus.
# usage: file_refactor.sh <Rid> <props,comma-separated> [r-numbers to mark known-limit...]
rid=$1; props=$2; shift 2
for d in /tmp/wt/$rid-out/r*; do
  [ -f $d/patch.diff ] || continue
  r=$(basename $d); id=refactor_${rid}_$r; kind=benign
  for k in "$@"; do [ "$k" = "$r" ] && kind=known-limit; done
  cp $d/patch.diff /verif/mutations/benign/$id.patch
  [ -f $d/NOTES.md ] && cp $d/NOTES.md /verif/notes/refactorings/${rid}_$r.md
  grep -q "^$id	" /verif/mutations/INDEX.tsv || printf '%s\t%s\t%s\n' $id $kind $props >> /verif/mutations/INDEX.tsv
done
