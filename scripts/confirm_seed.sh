#!/bin/bash
# Development tool: confirms a seeded change in a scratch worktree of /repo's HEAD:
#   (1) patch applies and the module builds, (2) the module's existing suite passes with it,
#   (3) the demonstration fails with it, (4) the demonstration passes without it.
# usage: confirm_seed.sh <dir with patch.diff + demo_test.go> <module dir relative to repo root> <id>
# Writes <dir>/confirm.log ; prints one summary line; removes the worktree.
set -u
src=$1; mod=$2; id=$3
export GOFLAGS=-mod=mod GOPROXY=off GOSUMDB=off GOTOOLCHAIN=local; unset GOWORK
wt=/tmp/confirm/$id
rm -rf $wt; mkdir -p /tmp/confirm
git -C /repo worktree add --detach $wt HEAD -q || exit 2
log=$src/confirm.log; : > $log
patch=$src/patch.diff; [ -f $src/patch.rebased.diff ] && patch=$src/patch.rebased.diff
res="id=$id"
cd $wt
if ! git apply $patch 2>>$log; then res="$res apply=FAIL"; echo "$res"; cd /; git -C /repo worktree remove --force $wt; exit 1; fi
res="$res apply=ok"
( cd $wt/$mod && go build ./... && go test -vet=off -count=1 -run '^$' ./... ) >>$log 2>&1 && res="$res build=ok" || res="$res build=FAIL"
( cd $wt/$mod && go test -vet=off -count=1 -timeout 25m ./... ) >>$log 2>&1 && res="$res suite_with_patch=pass" || res="$res suite_with_patch=FAIL"
# demo files
demos=""
for d in $src/demo*_test.go; do
  place=$(head -1 $d | sed -n 's|^// place at: *||p')
  [ -z "$place" ] && { res="$res demo_place=MISSING"; continue; }
  mkdir -p $(dirname $wt/$place); cp $d $wt/$place; demos="$demos $place"
done
pkgs=$(for d in $demos; do echo ./$(dirname $d | sed "s|^$mod/||;s|^$mod\$|.|"); done | sort -u)
tests=$(grep -h "^func Test" $src/demo*_test.go | sed 's/func \(Test[A-Za-z0-9_]*\).*/\1/' | paste -sd'|')
( cd $wt/$mod && go test -vet=off -count=1 -timeout 20m -run "^($tests)\$" $pkgs ) >>$log 2>&1 && res="$res demo_with_patch=PASS(unexpected)" || res="$res demo_with_patch=fail(expected)"
git apply -R $patch
( cd $wt/$mod && go test -vet=off -count=1 -timeout 20m -run "^($tests)\$" $pkgs ) >>$log 2>&1 && res="$res demo_without_patch=pass(expected)" || res="$res demo_without_patch=FAIL(unexpected)"
cd /; git -C /repo worktree remove --force $wt
echo "$res" | tee -a $log
