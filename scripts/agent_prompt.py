#!/usr/bin/env python3
# Prints the prompt handed to a mutation sub-agent for one property (development tool).
import json,sys
pid=sys.argv[1]; wt=sys.argv[2]
style=sys.argv[3] if len(sys.argv)>3 else ''
STYLE={'':'',
 'far':"\nADDITIONAL CONSTRAINT FOR THIS ROUND: make both changes OUTSIDE the functions one would first think of - in a helper, utility, accessor, constructor, option/default, data table or sibling implementation that the involved code relies on (possibly in another file or package of the same module) - so that the function that visibly implements the property is left untouched and still looks right.\n",
 'add':"\nADDITIONAL CONSTRAINT FOR THIS ROUND: both changes must ADD or MOVE code - the kind of well-meant optimisation or feature a developer adds (a cache or memo, a fast path / early exit, reuse of a buffer or object across calls, pooling, batching, an extra option, a retry, moving work out of a lock or loop) - rather than delete, negate or off-by-one an existing line.\n",
}[style]
moddir={'C05':'collector/processor/concurrentbatchprocessor','C06':'collector/processor/concurrentbatchprocessor','C09':'collector/processor/concurrentbatchprocessor','C10':'collector/processor/concurrentbatchprocessor','C11':'collector/processor/concurrentbatchprocessor','C18':'collector/processor/concurrentbatchprocessor','C17':'collector/processor/obfuscationprocessor'}.get(pid,'. (the root module, packages under pkg/...)')
p=[json.loads(l) for l in open('/verif/properties.jsonl') if json.loads(l)['id']==pid][0]
print(f"""You are helping to test a verification tool by writing realistic bugs for it to find. Work ONLY inside the git worktree {wt} (a checkout of the Go repository open-telemetry/otel-arrow at a pinned commit) and the output directory {wt}-out. Do NOT read, list or touch /verif or /repo (not even to look): what you write must be independent of them. There is no network. Never use `git stash` (the stash is shared by all worktrees of the repository and other testers work next to you): keep variants as patch files instead.

Every shell call must start with:  export GOFLAGS=-mod=mod GOPROXY=off GOSUMDB=off GOTOOLCHAIN=local; unset GOWORK
(the repository has three Go modules: the root module with packages under pkg/..., collector/processor/concurrentbatchprocessor, and collector/processor/obfuscationprocessor; run go commands from inside the module directory). The module relevant here: {moddir}.

THE PROPERTY (of the software, stated behaviourally):
Title: {p['title']}
Statement: {p['statement']}
Quantified over: {p['quantifier']['text']}
Code areas involved: {', '.join(p['anchors']['files'])}

YOUR TASK: produce TWO independent alternative source changes (call them m1 and m2; different sites / different mechanisms; each is a small patch to non-test .go files, typically 1-15 changed lines) such that each change, applied alone to the pristine worktree:
 (1) still compiles (go build ./... and go vet-free `go test -vet=off -count=1 -run '^$' ./...` in the module),
 (2) ALL existing tests of the affected module still pass: `go test -vet=off -count=1 ./...` in that module directory (for the root module this takes 5-15 minutes because other jobs share the machine: while iterating run only the packages you touched, run the full module suite ONCE per change at the end with `-p 4` and a 40-minute timeout),
 (3) breaks the property above, and
 (4) needs something specific to manifest - a particular interleaving, a crash or fault at a particular point, a multi-step sequence of operations, an unusual input, or two cooperating sites that each look fine alone - NOT something ordinary use would expose at once.
{STYLE}Make them realistic: the kind of mistake a developer plausibly introduces while refactoring, optimising or adding a feature (an off-by-one in a guard, a dropped release / reset / copy of one field, a check moved after the action, a wrong variable of the same type, a missing case, state shared that should be per-instance, an error swallowed, ...). Do not merely re-expose a bug that already exists in the pristine code: your demonstration must PASS on the pristine worktree.

For each change also write a demonstration: a new Go test file (not part of the patch; put it in the package directory it needs) that FAILS with the change applied and PASSES on the pristine worktree. Deterministic if at all possible (for schedule-dependent bugs, force the interleaving with channels/blocking consumers rather than sleeping and hoping).

DELIVERABLES, written to {wt}-out/ :
  m1/patch.diff   - `git diff` of the source change only (no test files), relative to the worktree root, applicable with `git apply`
  m1/demo_test.go - the demonstration; first line a comment `// place at: <path relative to repo root>`
  m1/NOTES.md     - what the change breaks, what it needs in order to manifest, and the exact commands you ran with their outcome (suite passes with patch; demo fails with patch; demo passes without patch)
  m2/...          - same for the second change
Verify all three outcomes yourself for each change before finishing. When done, restore the worktree to pristine (git checkout -- . and delete your demo files from it) and reply with a 5-line summary per change. If after honest effort you can only produce one valid change, deliver one and say so.""")
