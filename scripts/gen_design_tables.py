#!/usr/bin/env python3
"""Development tool: prints the generated parts of DESIGN.md (section 12 table of seeded changes, appendix A rule list)."""
import json,glob,os,subprocess,re
first={ # how the seeded change fared on the first run of the checks that existed when it arrived
 'C01-m1':'missed; RT.14 written afterwards','C01-m2':'caught (C12.6, then registered as C0x.6)','C02-m1':'caught (RT.14 existed by then)','C02-m2':'caught',
 'C03-m1':'missed; RT.14 written afterwards','C03-m2':'missed; RT.15 written afterwards','C04-m1':'missed; every-path clause of C13.5 added','C04-m2':'missed; Build-order clause of C12.3 added',
 'C05-m1':'caught','C05-m2':'caught by C09.2; C05.11 registered afterwards','C06-m1':'caught','C06-m2':'caught','C07-m1':'missed; duplicate-main clause of C07.5 added','C07-m2':'missed; arm-consumption clause of C07.5 added',
 'C08-m1':'missed; C08.8 written afterwards','C08-m2':'caught','C09-m1':'caught','C09-m2':'missed; C09.6/C05.10 written afterwards','C10-m1':'caught','C10-m2':'caught','C11-m1':'caught','C11-m2':'caught',
 'C12-m1':'reported only as unresolved anchors; anchors made semantic, C12.8 added','C12-m2':'caught','C13-m1':'caught (clause existed by then)','C14-m1':'caught','C14-m2':'missed; C14.8 written afterwards',
 'C15-m1':'caught','C15-m2':'caught','C16-m1':'caught','C16-m2':'missed; library-type clause of C16.1 added','C17-m1':'missed; C17.6 written afterwards','C17-m2':'missed; order clause of C17.4 added',
 'C18-m1':'missed; C18.6/C06.7 written afterwards','C18-m2':'missed; C18.7 written, C10.5 sharpened'}
print("| seed | breaks | what it changes | reported by (today) | first run |")
print("|------|--------|-----------------|---------------------|-----------|")
for d in sorted(glob.glob('/verif/seeded/*')):
    m=json.load(open(d+'/meta.json')); sid=os.path.basename(d)
    notes=open(d+'/NOTES.md').read().splitlines() if os.path.exists(d+'/NOTES.md') else ['']
    title=next((l for l in notes if l.startswith('#')),'').lstrip('# ')
    title=re.sub(r'^(C\d\d\s*/\s*)?m\d\s*[-—:]\s*','',title).replace('|','/')
    det='; '.join(f"{p}: {', '.join(v['rules'])}" for p,v in m['detected_by'].items() if v['rules'])
    fr=m.get('first_run') or first.get(sid,'')
    print(f"| {sid} | {m['breaks_property']} | {title[:120]} | {det} | {fr} |")
print()
print("## Appendix A. Registered rules (generated from `otelcheck -list`)\n")
out=subprocess.run(['/verif/bin/otelcheck','-list'],capture_output=True,text=True).stdout
print("| property | rule | floor | tier | canary | title |")
print("|----------|------|-------|------|--------|-------|")
for l in out.splitlines():
    m=re.match(r'(C\d\d) (\S+) floor=(\d+) thorough-only=(\w+) canary=(\w+)\s+(.*)',l)
    if m:
        p,r,f,t,c,title=m.groups()
        print(f"| {p} | {r} | {f} | {'thorough' if t=='true' else 'both'} | {'yes' if c=='true' else ''} | {title} |")
