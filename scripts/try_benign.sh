#!/bin/bash
# Development tool: applies a patch to /tmp/wt/main and runs the quick checks of ALL properties of the patch's module(s); prints only non-silent ones.
patch=$1; shift
cd /tmp/wt/main || exit 2
git checkout -q -- . ; git clean -fdq
if ! git apply "$patch" 2>/tmp/apply_wt.err; then echo "PATCH DOES NOT APPLY: $(head -3 /tmp/apply_wt.err)"; exit 2; fi
mkdir -p /tmp/try_verif_wt; cp /verif/KNOWN_FINDINGS.txt /tmp/try_verif_wt/
props="$@"; [ -z "$props" ] && props="C01 C02 C03 C04 C05 C06 C07 C08 C09 C10 C11 C12 C13 C14 C15 C16 C17 C18"
for p in $props; do
  out=$(${OTELCHECK:-/verif/bin/otelcheck} -property $p -tier quick -repo /tmp/wt/main -verif /tmp/try_verif_wt 2>&1); rc=$?
  if [ $rc -ne 0 ]; then echo "== $p exit=$rc"; echo "$out" | grep -v "^VIOLATION\|^  key\|KNOWN-FINDING" | cut -c1-${WIDTH:-330} | head -${LINES_MAX:-8}; fi
done
cd /tmp/wt/main; git checkout -q -- . ; git clean -fdq
