#!/bin/bash
# Development tool: applies a patch to a scratch worktree and runs the quick checks of ALL properties (or the given ones); prints only non-silent ones.
# usage: [WT=/tmp/wt/slotN] try_benign.sh <patch> [props...]
patch=$1; shift
props="$@"; [ -z "$props" ] && props="C01 C02 C03 C04 C05 C06 C07 C08 C09 C10 C11 C12 C13 C14 C15 C16 C17 C18"
LINES_MAX=${LINES_MAX:-8} WIDTH=${WIDTH:-330} /verif/scripts/try_patch.sh "$patch" $props | awk '/^== /{show=($3!="exit=0")} show{print}'
