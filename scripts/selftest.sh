#!/bin/bash
# Development tool (not a MANIFEST command): applies every patch of /verif/mutations to a scratch worktree of /repo HEAD in turn, runs the
# quick checks of the properties listed in INDEX.tsv, expects a violation for breaking patches and silence for
# benign ones, and resets the worktree after each.  usage: selftest.sh [name-substring]
cd /verif; pass=0; fail=0
while IFS=$'\t' read -r name kind props; do
  [ -n "${1:-}" ] && [[ "$name" != *"$1"* ]] && continue
  patch=mutations/$name.patch; [ $kind = benign ] && patch=mutations/benign/$name.patch; [ $kind = known-limit ] && patch=mutations/benign/$name.patch
  out=$(LINES_MAX=12 WIDTH=200 scripts/try_patch.sh /verif/$patch ${props//,/ } 2>&1)
  if echo "$out" | grep -q "DOES NOT APPLY"; then echo "SKIP  $name (does not apply)"; continue; fi
  if echo "$out" | grep -q "cannot analyse"; then fail=$((fail+1)); echo "INVALID $name (the patched tree does not type-check: not a mutation)"; continue; fi
  caught=$(echo "$out" | grep -c "exit=1")
  if [ $kind = breaking ] && [ $caught -ge 1 ]; then pass=$((pass+1)); echo "ok    $name caught by $(echo "$out" | grep -o ': C[0-9]*\.[0-9]*\|: RT\.[0-9]*' | sort -u | tr -d ': ' | paste -sd,)";
  elif [ $kind = benign ] && [ $caught -eq 0 ]; then pass=$((pass+1)); echo "ok    $name silent";
  elif [ $kind = known-limit ]; then echo "limit $name: behaviour-preserving refactoring that the checks do not follow (recorded in DESIGN 8; alarms: $caught)";
  else fail=$((fail+1)); echo "FAIL  $name ($kind)"; echo "$out" | head -8; fi
done < mutations/INDEX.tsv
echo "selftest: $pass ok, $fail failed"
