#!/usr/bin/env python3
"""Regenerates /verif/MANIFEST.json from the claims table below (development tool)."""
import json
props=[json.loads(l)['id'] for l in open('/verif/properties.jsonl')]
# property -> (technique, level text, level note, design ref)
claims={}
exec(open('/verif/scripts/claims.py').read())
checks=[]
for pid in props:
    if pid not in claims: continue
    c=claims[pid]
    checks.append({
      "property_id":pid,
      "quick_cmd":f"/verif/bin/otelcheck -property {pid} -tier quick",
      "thorough_cmd":f"/verif/bin/otelcheck -property {pid} -tier thorough",
      "evidence_file":f"/verif/evidence/{pid}.json",
      "replay_cmd_template":"/verif/bin/otelcheck replay {path}",
      "engine":"otelcheck",
      "level_claimed":{"category":"other","text":c["text"],"design_ref":c.get("ref","DESIGN.md section 4")},
      "level_note":c["note"],
      "technique":c["technique"],
    })
na=[{"property_id":p,"reason":not_applicable.get(p,"check not built yet (build in progress; see DESIGN.md section 9)")} for p in props if p not in claims]
m={
 "version":1,
 "setup_cmd":"cd /verif/checker && GOFLAGS=-mod=vendor GOPROXY=off GOSUMDB=off GOTOOLCHAIN=local GOWORK=off go build -o /verif/bin/otelcheck ./cmd/otelcheck",
 "hooks":{"guard":"verif","enable":"none needed: every check is a static analysis of /repo's default build (go/packages + go/types + go/ssa); no instrumentation is compiled into /repo","baseline_off_cmd":"bash /verif/scripts/baseline.sh","source_commits":[],"add_only":True},
 "engines":[{"name":"otelcheck","path":"/verif/checker","serves_properties":[c["property_id"] for c in checks],"kind_free_text":"repository-specific static analyser (Go, golang.org/x/tools v0.29.0 vendored): type-checked AST, SSA value flow, CFG path rules, call graph; loads /repo's working tree on every run"}],
 "checks":checks,
 "notes":"Every check is static: it type-checks /repo's current working tree, evaluates repository-specific rules and reports a construct (file:line, function, rule, obligation key). Level 'other' everywhere: structural necessary conditions are decided for all paths/sites; value-level behaviour is not (see level_note and DESIGN.md). KNOWN_FINDINGS.txt lists genuine defects recorded rather than repaired.",
 "not_applicable":na,
}
json.dump(m,open('/verif/MANIFEST.json','w'),indent=1)
print(len(checks),"checks,",len(na),"not applicable")
