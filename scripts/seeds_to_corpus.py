#!/usr/bin/env python3
"""Development tool: copies every filed seed whose first run was not a clean catch under its own property
into the regression corpus (mutations/seed_<id>.patch + a line in INDEX.tsv). Idempotent."""
import json,glob,os,shutil
idx=open('/verif/mutations/INDEX.tsv').read()
have={l.split('\t')[0] for l in idx.splitlines() if l}
add=[]
for d in sorted(glob.glob('/verif/seeded/*')):
    m=json.load(open(d+'/meta.json')); sid=os.path.basename(d); name='seed_'+sid
    fr=(m.get('first_run') or '').lower()
    if not fr or fr.startswith('caught on first run') : continue
    if name in have or any(__import__('re').sub(r'[-_]','',h.lower()).startswith(__import__('re').sub(r'[-_]','',name.lower())) for h in have): continue
    props=[p for p,v in m['detected_by'].items() if v.get('exit')==1]
    if not props: continue
    shutil.copy(d+'/patch.diff',f'/verif/mutations/{name}.patch')
    add.append(f"{name}\tbreaking\t{','.join(props)}")
if add:
    open('/verif/mutations/INDEX.tsv','a').write('\n'.join(add)+'\n')
print(len(add),'added');print('\n'.join(add))
