#!/bin/bash
# Development tool: apply a patch to /repo, run the quick checks of the given
# properties, undo the patch.  usage: try_patch.sh <patch.diff> <Cxx> [<Cyy>...]
patch=$1; shift
cd /repo || exit 2
if [ -n "$(git status --porcelain)" ]; then echo "/repo has uncommitted changes"; exit 2; fi
if ! git apply "$patch" 2>/tmp/apply.err; then
  echo "PATCH DOES NOT APPLY: $(head -3 /tmp/apply.err)"; git reset -q --hard HEAD; exit 2
fi
mkdir -p /tmp/try_verif; cp /verif/KNOWN_FINDINGS.txt /tmp/try_verif/
for p in "$@"; do
  out=$(/verif/bin/otelcheck -property $p -tier ${TIER:-quick} -verif /tmp/try_verif 2>&1); rc=$?
  echo "== $p exit=$rc"; echo "$out" | grep -v "^VIOLATION\|^  key\|^KNOWN-FINDING" | cut -c1-${WIDTH:-400} | head -${LINES_MAX:-6}
done
git reset -q --hard HEAD; git clean -fdq
