#!/bin/bash
# Development tool: apply a patch to a scratch worktree of /repo's HEAD (never to /repo itself), run the quick
# checks of the given properties against it, undo the patch.
# usage: [WT=/tmp/wt/slotN] try_patch.sh <patch.diff> <Cxx> [<Cyy>...]
patch=$1; shift
WT=${WT:-/tmp/wt/main}
if [ ! -d "$WT/.git" ] && [ ! -f "$WT/.git" ]; then
  mkdir -p "$(dirname "$WT")"; git -C /repo worktree prune; git -C /repo worktree add --detach "$WT" HEAD -q || exit 2
fi
cd "$WT" || exit 2
if [ "$(git rev-parse HEAD)" != "$(git -C /repo rev-parse HEAD)" ]; then git checkout -q --detach "$(git -C /repo rev-parse HEAD)"; fi
git checkout -q -- . ; git clean -fdq
err=/tmp/apply.$$.err
if ! git apply "$patch" 2>$err; then
  echo "PATCH DOES NOT APPLY: $(head -3 $err)"; rm -f $err; git checkout -q -- . ; git clean -fdq; exit 2
fi
rm -f $err
tv=/tmp/try_verif.$(basename "$WT"); mkdir -p $tv; cp /verif/KNOWN_FINDINGS.txt $tv/
for p in "$@"; do
  out=$(${OTELCHECK:-/verif/bin/otelcheck} -property $p -tier ${TIER:-quick} -repo "$WT" -verif $tv 2>&1); rc=$?
  echo "== $p exit=$rc"; echo "$out" | grep -v "^VIOLATION\|^  key\|^KNOWN-FINDING" | cut -c1-${WIDTH:-400} | head -${LINES_MAX:-6}
done
git checkout -q -- . ; git clean -fdq
