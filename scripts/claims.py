# Claims table used by gen_manifest.py: one entry per property that has a check.
not_applicable = {}
claims["C18"] = dict(
  technique="static analysis: SSA loop-coverage analysis of the single-context predicate, backward value-flow slices of the export context, access-path agreement of contributor tuples, select-arm pairing",
  text="Decides, for all paths of the batch processor's export code, structural necessary conditions of the property: the single-context predicate examines every contributor; the export context derives only from the shard's own context on the multi-contributor arm and from a contributor on the single arm; links are built to and from every contributor; contributor tuples carry their own context; sends to waiters are cancellable by the same contributor. A behavioural proof over schedules is out of reach of static analysis; these clauses are what the code shape can settle, for every path rather than the sampled schedules of the test suite.",
  note="Not decided: what downstream consumers do with a cancelled context, span contents, any schedule-dependent behaviour. Trusted: go/ssa construction, Tracer.Start deriving its context from its first argument.",
  ref="DESIGN.md section 4, C18")
