# Claims table used by gen_manifest.py: one entry per property that has a check.
not_applicable = {}
_trust = " Trusted base: go/types + go/ssa (x/tools v0.29.0), the rule implementations, documented behaviour of the library APIs named in the rules."
_why = " A behavioural proof over inputs/schedules is out of reach of static analysis; these clauses are what the shape of the code can settle, for every path and site rather than the cases the test suite samples."
claims["C05"] = dict(
  technique="static analysis: SSA may/must dataflow over pdata RemoveIf callbacks, identity-field completeness derived from pdata method sets, CFG must-pass-through on the shutdown drain, value-flow agreement of counters, stale-capture dataflow, guard truth tables",
  text="Decides structural necessary conditions of exactly-once delivery with intact content for all paths of the batch processor: RemoveIf callbacks remove exactly what they transferred (C05.1); every split fragment container receives every identity field of its pdata type (C05.2); the exported request never aliases the pending buffer (C05.4, C05.11); count units agree (C05.5); shutdown drains the queue through the item handler and flushes (C05.6, C05.7); split size, counter and reported size are one value and the counter follows content (C05.8, C05.9); capacity tests read live state (C05.10)."+_why,
  note="Not decided: goroutine interleavings, that pdata MoveTo/RemoveIf/MoveAndAppendTo behave as documented, arithmetic of running totals."+_trust,
  ref="DESIGN.md section 4, C05")
claims["C06"] = dict(
  technique="static analysis: SSA value-flow slices of the response payload, loop-carried (phi) analysis of the waiter, AST path-condition truth tables of the apportioning guard, select-arm path rules",
  text="Decides structural necessary conditions of 'each caller gets the true outcome of its own items': response channel iff !early_return (C06.1); enqueue outcomes (C06.2); every contributor is sent the export result with its own count after the export (C06.3); apportioning guard and arithmetic (C06.4); waiter countdown, loop-carried error join, context arm (C06.5); Unwrap (C06.6); one pending entry per request (C06.7). This is the thinnest claim of the set: that the counts add up over all arrival orders is arithmetic over run-time quantities and is not decided."+_why,
  note="Not decided: sums over arrival orders, promptness, at-most-once delivery after cancellation."+_trust,
  ref="DESIGN.md section 4, C06")
claims["C09"] = dict(
  technique="static analysis: AST path conditions evaluated as truth tables over a finite order domain (guards of send, split, flush, timer creation, Validate), CFG must-pass-through for timer re-arming with wrapper summaries",
  text="Decides structural necessary conditions of the size limits and flush conditions: no send with an empty batch (C09.1); split iff max>0 and count>max with size max (C09.2); Validate rejects exactly max>0 and max<size, or timeout<0 (C09.3); flush iff count>0 and (no timer or count>=size), timer exists iff timeout!=0 and size!=0 (C09.4); the timer arm and every size-triggered send re-arm the timer (C09.5); split capacity tests read live state (C09.6). Wall-clock deadlines are a run-time quantity no static argument here can bound and are NOT claimed."+_why,
  note="Not decided: any timing bound, behaviour while the concurrency semaphore holds exports back. Assumes go 1.23 timer semantics (module go directive)."+_trust,
  ref="DESIGN.md section 4, C09")
claims["C10"] = dict(
  technique="static analysis: must-held lockset dataflow over the CFG, guard truth tables for the cardinality test, SSA value-flow agreement between lookup key and export metadata, loop-coverage analysis over the configured keys",
  text="Decides structural necessary conditions of tenant isolation and the cardinality limit: limit test, LoadOrStore, size update and shard start in one critical section and size only under the lock (C10.1); refuse iff limit!=0 and size>=limit with a permanent error (C10.2); key and metadata from the same Metadata.Get value over all keys, injectively (C10.3); own batch and queue per shard (C10.4); processor-owned export context carrying this key's metadata (C10.5)."+_why,
  note="Not decided: interleavings beyond the lock discipline, sync.Map internals, attribute.Set equality."+_trust,
  ref="DESIGN.md section 4, C10")
claims["C11"] = dict(
  technique="static analysis: goroutine-root call graph with per-field access map and must-held locksets (confinement or common lock), CFG pairing rules for semaphore Acquire/Release and WaitGroup Add/Done, select-arm rules",
  text="Decides structural necessary conditions of bounded concurrency, shutdown drain and race freedom: semaphore exists iff configured, acquired before every export spawn with a non-cancellable context, released by a defer established first (C11.1); every go statement covered by Add(1)/deferred Done, Shutdown closes then waits (C11.2); every field written after construction is confined to the shard's loop goroutine or accessed under a common mutex (C11.3); cancellable sends (C11.4); shard loop drains and returns on shutdown (C11.5). A necessary-condition race check, not a proof of race or deadlock freedom."+_why,
  note="Not decided: deadlock freedom in general, leaks of callers, races inside pdata / otel SDK / semaphore."+_trust,
  ref="DESIGN.md section 4, C11")
claims["C18"] = dict(
  technique="static analysis: SSA loop-coverage analysis of the single-context predicate, backward value-flow slices of the export context (interprocedural through call sites), access-path agreement of contributor tuples, select-arm pairing",
  text="Decides structural necessary conditions of 'one caller's context never decides another caller's fate': the single-context predicate examines every contributor (C18.1); the export context derives only from the shard's own context on the multi-contributor arm and from a contributor on the single arm (C18.2); links to and from every contributor (C18.3); contributor tuples and pending entries carry their own request's context (C18.4, C18.6); cancellable sends (C18.5); the shard's export context never derives from a request context (C18.7)."+_why,
  note="Not decided: what downstream consumers do with a cancelled context, span contents, schedule-dependent behaviour. Assumes Tracer.Start derives its context from its first argument."+_trust,
  ref="DESIGN.md section 4, C18")
