#!/usr/bin/env python3
"""Development tool: file a confirmed seeded change under /verif/seeded/<id>/ and record which checks catch it.
usage: keep_seed.py <src dir> <seed id> <property> <module dir> [<extra property>...]"""
import sys,os,shutil,subprocess,json,re
src,sid,prop,mod=sys.argv[1:5]; extra=sys.argv[5:]
dst=f'/verif/seeded/{sid}'; os.makedirs(dst,exist_ok=True)
patch=src+'/patch.rebased.diff' if os.path.exists(src+'/patch.rebased.diff') else src+'/patch.diff'
shutil.copy(patch,dst+'/patch.diff')
for f in os.listdir(src):
    if f.startswith('demo') and f.endswith('_test.go'): shutil.copy(src+'/'+f,dst+'/'+f+'.txt')
notes=open(src+'/NOTES.md').read() if os.path.exists(src+'/NOTES.md') else ''
shutil.copy(src+'/NOTES.md',dst+'/NOTES.md') if notes else None
confirm=open(src+'/confirm.log').read().strip().splitlines()[-1] if os.path.exists(src+'/confirm.log') else 'not confirmed'
caught={}
for p in [prop]+extra:
    out=subprocess.run(['/verif/scripts/try_patch.sh',dst+'/patch.diff',p],capture_output=True,text=True,errors='replace',env=dict(os.environ,LINES_MAX='40',WIDTH='300')).stdout
    rules=sorted(set(re.findall(r': (C\d+\.\d+|RT\.\d+)(?: \(undecided\))?:',out)))
    rc=re.search(r'exit=(\d)',out)
    caught[p]={'exit':int(rc.group(1)) if rc else None,'rules':rules}
m=re.search(r'needs?[^\n]*\n+(.*?)(\n\n|\Z)',notes,re.S|re.I)
meta={'seed_id':sid,'breaks_property':prop,'module':mod,
 'needs_to_manifest':(m.group(1).strip()[:600] if m else 'see NOTES.md'),
 'confirmed_by':'scripts/confirm_seed.sh in a scratch worktree of /repo HEAD (removed afterwards): '+confirm,
 'detected_by':caught,
 'source':'independent sub-agent given only the property text and its own scratch worktree',
 'first_run':os.environ.get('SEED_NOTE','')}
json.dump(meta,open(dst+'/meta.json','w'),indent=1)
print(sid,caught)
