#!/usr/bin/env python3
# Prints the prompt handed to a refactoring sub-agent (false-alarm campaign; development tool).
# usage: refactor_prompt.py <campaign id, e.g. R15> <worktree> <area key>
import sys
rid,wt,area=sys.argv[1:4]
AREAS={
 'record':('the root module (packages under pkg/...)','.', 'pkg/otel/arrow_record/producer.go, pkg/otel/arrow_record/consumer.go, pkg/record_message/arrow_record.go, pkg/otel/common/arrow/allocator.go, pkg/otel/common/arrow/related_data.go (stream producers/consumers, IPC writer/reader life cycle, framing of BatchArrowRecords, memory limit, release of records, Close)'),
 'schema':('the root module (packages under pkg/...)','.', 'pkg/otel/common/schema/*.go, pkg/otel/common/schema/builder/*.go, pkg/otel/common/schema/transform/*.go, pkg/otel/common/schema/update/*.go, pkg/otel/common/schema/events/*.go (adaptive schema, dictionary index widths, overflow to plain columns, the rebuild loop of the record builder, optional columns)'),
 'cbp':('collector/processor/concurrentbatchprocessor','collector/processor/concurrentbatchprocessor','batch_processor.go, splitlogs.go, splittraces.go, splitmetrics.go, config.go (shards, pending list, the export goroutine, waiters, timers, shutdown drain, the in-flight byte semaphore, metadata batchers)'),
 'metrics':('the root module (packages under pkg/...)','.', 'pkg/otel/metrics/arrow/*.go and pkg/otel/metrics/otlp/*.go (encoders and decoders of number/summary/histogram/exp-histogram data points, exemplars, related data, the metrics optimizer)'),
 'logstraces':('the root module (packages under pkg/...)','.', 'pkg/otel/logs/arrow/*.go, pkg/otel/logs/otlp/*.go, pkg/otel/traces/arrow/*.go, pkg/otel/traces/otlp/*.go (row builders, optimizers, related data, decoders that regroup rows into resources/scopes)'),
 'common':('the root module (packages under pkg/...)','.', 'pkg/otel/common/arrow/*.go (attributes_16.go, attributes_32.go, any_value.go, resource.go, scope.go, attributes.go, optimizer_options.go), pkg/otel/common/otlp/*.go (attributes.go, any_value.go, resource.go, scope.go, ids.go), pkg/arrow/*.go (typed column accessors), pkg/otel/common/cbor.go'),
 'obf':('collector/processor/obfuscationprocessor','collector/processor/obfuscationprocessor','obfuscation.go, factory.go, config.go (feistel-cipher obfuscation of attribute values/names in traces, logs, metrics)'),
}
mod,moddir,files=AREAS[area]
print(f"""You are helping to test a static-analysis tool for false alarms by writing realistic BEHAVIOUR-PRESERVING refactorings of a Go code base. Work ONLY inside the git worktree {wt} (a checkout of the Go repository open-telemetry/otel-arrow at a pinned commit) and the output directory {wt}-out. Do NOT read, list or touch /verif or /repo (not even to look). There is no network.

Every shell call must start with:  export GOFLAGS=-mod=mod GOPROXY=off GOSUMDB=off GOTOOLCHAIN=local; unset GOWORK
(the repository has three Go modules: the root module with packages under pkg/..., collector/processor/concurrentbatchprocessor, and collector/processor/obfuscationprocessor; run go commands from inside the module directory). Your module: {mod}.

YOUR AREA: {files}

YOUR TASK: write SIX independent refactorings r1..r6 of non-test .go files in your area, each a separate patch against the pristine worktree, each of the kind a maintainer would plausibly merge in a clean-up PR, and each STRICTLY behaviour-preserving: same results, same errors (werror.Wrap line numbers may shift), same panics, same side effects in the same order as far as any caller or concurrent goroutine can observe, same memory ownership (retain/release), same locking. Each should restructure code that carries real logic (loops, guards, error paths, resource handling, state updates), 15-80 changed lines, not mere renames or comment edits. Use a DIFFERENT kind of refactoring for each of the six, and prefer kinds that change the SHAPE of the code a lot while keeping its meaning, for example:
  - merge near-duplicate functions into one generic (type-parameterised) or table-driven helper; or the reverse: specialise a generic helper
  - replace a method by a package function taking the receiver (or the reverse); value receiver <-> pointer receiver where that is safe
  - bundle several parameters / locals into a small struct (parameter object), or unbundle one
  - split a struct's fields into an embedded sub-struct; move a field's initialisation from a constructor literal to a helper
  - invert conditions into guard clauses / early continue; if-else chains <-> switch <-> map or slice lookup tables
  - index loops <-> range loops <-> `for i := range n`; loop fusion or fission; hoisting of invariants; labelled break/continue
  - introduce defer for a cleanup written out on several paths (only where ordering stays the same), or the reverse
  - closures <-> named methods / method values; callbacks passed as function values <-> small interfaces
  - introduce a local alias / accessor method for a long selector chain; inline a one-use helper
  - move a block into a helper that takes and/or RETURNS values (incl. multiple results, a result struct, or an error)
  - replace boolean flag variables by early returns or by an enum; replace sentinel values by (value, ok)
  - move code between files of the same package; reorder independent statements
Avoid anything that changes behaviour in a corner case (integer width changes, evaluation-order changes with side effects, changing which goroutine does something, changing when memory is released, altering error wrapping text).

For each refactoring:
 (1) `go build ./...` and `go test -vet=off -count=1 -run '^$' ./...` in the module succeed,
 (2) the module's existing tests pass with the patch: while iterating run only the packages you touched; at the end run the full module suite ONCE with r1..r6 applied together if they do not overlap (`go test -vet=off -count=1 -p 4 ./...`, for the root module allow a 40-minute timeout; other jobs share the machine), otherwise per patch.
 (3) write a short argument why behaviour is preserved.

DELIVERABLES, written to {wt}-out/ :
  r1/patch.diff .. r6/patch.diff - `git diff` of that refactoring ALONE against the pristine worktree (each must apply with `git apply` to the pristine tree on its own)
  r1/NOTES.md .. r6/NOTES.md     - first line `Kind: <kind of refactoring>`, then what was moved where, the preservation argument, and the commands you ran with outcome
When done, restore the worktree to pristine (git checkout -- . ; git clean -fd) and reply with one line per refactoring.""")
