#!/usr/bin/env python3
"""Development tool: try one textual edit on the private worktree /tmp/wt/main without filing it.
usage: probe_mut.py <module dir> <file rel to repo> <old> <new> <Cxx> [Cyy...]
BASE_PATCH=<patch> applies a patch first (sensitivity of a refactored form).
Builds the module with the edit, runs the quick checks of the given properties against /tmp/wt/main, restores the tree."""
import sys,subprocess,os
mod,f,old,new=sys.argv[1:5]; props=sys.argv[5:]
wt='/tmp/wt/main'
subprocess.check_call(['git','-C',wt,'checkout','-q','--','.'])
if os.environ.get('BASE_PATCH'):  # stack the edit on a (refactoring) patch
    subprocess.check_call(['git','-C',wt,'apply',os.environ['BASE_PATCH']])
p=wt+'/'+f; s=open(p).read()
assert s.count(old)==1,('occurrences',s.count(old))
open(p,'w').write(s.replace(old,new))
env=dict(os.environ,GOFLAGS='-mod=mod',GOPROXY='off',GOSUMDB='off',GOTOOLCHAIN='local'); env.pop('GOWORK',None)
b=subprocess.run(['go','build','./...'],cwd=wt+'/'+mod,env=env,capture_output=True,text=True)
if b.returncode!=0:
    print('DOES NOT COMPILE:',b.stderr[:400])
else:
    if os.environ.get('RUNTEST'):
        t=subprocess.run(['go','test','-vet=off','-count=1']+os.environ['RUNTEST'].split(),cwd=wt+'/'+mod,env=env,capture_output=True,text=True)
        print('SUITE', 'pass' if t.returncode==0 else 'FAIL: '+' | '.join([l for l in t.stdout.splitlines() if l.startswith(('--- FAIL','FAIL'))][:4]))
    os.makedirs('/tmp/try_verif_wt',exist_ok=True)
    subprocess.run(['cp','/verif/KNOWN_FINDINGS.txt','/tmp/try_verif_wt/'])
    for pr in props:
        r=subprocess.run([os.environ.get('OTELCHECK','/verif/bin/otelcheck'),'-property',pr,'-tier','quick','-repo',wt,'-verif','/tmp/try_verif_wt'],capture_output=True,text=True)
        lines=[l for l in r.stdout.splitlines() if not l.startswith(('VIOLATION','  key','KNOWN-FINDING'))]
        print(f'== {pr} exit={r.returncode}'); print('\n'.join(l[:300] for l in lines[:5]))
subprocess.check_call(['git','-C',wt,'checkout','-q','--','.'])
