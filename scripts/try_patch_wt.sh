#!/bin/bash
# Development tool: alias of try_patch.sh (which now always works on a scratch worktree).
exec /verif/scripts/try_patch.sh "$@"
