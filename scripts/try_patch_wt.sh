#!/bin/bash
# Development tool: like try_patch.sh but on the private worktree /tmp/wt/main (usable while /repo is busy).
patch=$1; shift
cd /tmp/wt/main || exit 2
git checkout -q -- . ; git clean -fdq
if ! git apply "$patch" 2>/tmp/apply_wt.err; then echo "PATCH DOES NOT APPLY: $(head -3 /tmp/apply_wt.err)"; exit 2; fi
mkdir -p /tmp/try_verif_wt; cp /verif/KNOWN_FINDINGS.txt /tmp/try_verif_wt/
for p in "$@"; do
  out=$(${OTELCHECK:-/verif/bin/otelcheck} -property $p -tier ${TIER:-quick} -repo /tmp/wt/main -verif /tmp/try_verif_wt 2>&1); rc=$?
  echo "== $p exit=$rc"; echo "$out" | grep -v "^VIOLATION\|^  key\|KNOWN-FINDING" | cut -c1-${WIDTH:-400} | head -${LINES_MAX:-6}
done
cd /tmp/wt/main; git checkout -q -- . ; git clean -fdq
