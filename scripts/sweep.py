#!/usr/bin/env python3
"""Operator-mutation sweep (development tool): one-token mutants of the batch processor; for each that builds and
passes the module's unedited suite, run the cbp checks on it. Output: TSV lines id, file:line, mutation, suite, checks."""
import re,subprocess,os,sys,shutil,concurrent.futures,json
MOD=os.environ.get('SWEEP_MOD','collector/processor/concurrentbatchprocessor')
FILES=os.environ.get('SWEEP_FILES','batch_processor.go splitlogs.go splittraces.go splitmetrics.go').split()
OPS=[(r' > ',' >= '),(r' >= ',' > '),(r' < ',' <= '),(r' <= ',' < '),(r' == ',' != '),(r' != ',' == '),(r' && ',' || '),(r' \|\| ',' && '),
     (r'\+\+','--'),(r' \+= ',' -= '),(r' -= ',' += '),(r' \+ 1',' + 0'),(r' - 1',' - 0'),(r'return true','return false'),(r'return false','return true'),
     (r'\bnil, err\b','nil, nil'),(r'return err\b','return nil')]
env=dict(os.environ,GOFLAGS='-mod=mod',GOPROXY='off',GOSUMDB='off',GOTOOLCHAIN='local'); env.pop('GOWORK',None)
def mutants():
    out=[]
    for f in FILES:
        src=open(f'/repo/{MOD}/{f}').read().split('\n')
        for ln,line in enumerate(src):
            s=line.strip()
            if not s or s.startswith('//') or s.startswith('import') or 'Debug(' in s or 'zap.' in s: continue
            for pat,rep in OPS:
                for m in re.finditer(pat,line):
                    if '//' in line[:m.start()]: continue
                    new=line[:m.start()]+rep+line[m.end():]
                    out.append((f,ln,line,new,f'{pat.strip()} -> {rep.strip()}'))
    return out
def run(job):
    k,(f,ln,old,new,desc),slot=job
    wt=f'/tmp/wt/sw{os.environ.get("SWEEP_TAG","")}{slot}'
    if not os.path.exists(wt): subprocess.check_call(['git','-C','/repo','worktree','add','--detach',wt,'HEAD','-q'])
    subprocess.check_call(['git','-C',wt,'checkout','-q','--','.'])
    p=f'{wt}/{MOD}/{f}'; src=open(p).read().split('\n'); assert src[ln]==old; src[ln]=new; open(p,'w').write('\n'.join(src))
    b=subprocess.run(['go','build','./...'],cwd=f'{wt}/{MOD}',env=env,capture_output=True,text=True)
    if b.returncode!=0: res=('nobuild','')
    else:
        t=subprocess.run(['go','test','-vet=off','-count=1','-timeout','600s']+os.environ.get('SWEEP_TEST','.').split(),cwd=f'{wt}/{MOD}',env=env,capture_output=True,text=True)
        if t.returncode!=0: res=('killed-by-suite','')
        else:
            al=[]
            tv=f'/tmp/try_verif.sw{os.environ.get("SWEEP_TAG","")}{slot}'; os.makedirs(tv,exist_ok=True); shutil.copy('/verif/KNOWN_FINDINGS.txt',tv)
            for pr in os.environ.get('SWEEP_PROPS','C05 C06 C09 C10 C11 C18').split():
                r=subprocess.run(['/verif/bin/otelcheck','-property',pr,'-tier','quick','-repo',wt,'-verif',tv],capture_output=True,text=True)
                if r.returncode!=0:
                    rules=sorted(set(re.findall(r': ((?:C\d+|RT)\.\d+)(?: \(undecided\))?:',r.stdout)))
                    al.append(pr+':'+','.join(rules))
            res=('survived',' '.join(al))
    subprocess.check_call(['git','-C',wt,'checkout','-q','--','.'])
    out=(k,f,ln+1,desc,old.strip()[:90],res[0],res[1])
    print('\t'.join(map(str,out)),flush=True)
    return out
ms=mutants(); print(len(ms),'mutants',file=sys.stderr)
N=int(sys.argv[1]) if len(sys.argv)>1 else 6
jobs=[(k,m,k%N) for k,m in enumerate(ms)]
# one slot = one worker: run slots in parallel, jobs of a slot sequentially
def runslot(s): return [run(j) for j in jobs if j[2]==s]
with concurrent.futures.ThreadPoolExecutor(N) as ex:
    list(ex.map(runslot,range(N)))
